"""Clause factory: the cases of an existing 'given' clause, judged by the same plain check function, in child interpreters started with
-O and -OO.  What is constant within one test process and differs between deployments: `assert`-based or `__debug__`-guarded code."""
from __future__ import annotations

import json
import os
import subprocess
import sys

from hypothesis import HealthCheck, given, settings
from hypothesis import seed as hseed

from vf.core import Clause, HarnessError, Violation


def run_optimised(pid, cname, cases, tag, module="vf.optchild", ctx=None):
    """Runs the plain check function of clause `cname` on `cases` in children started with -O and -OO; raises the first Violation found."""
    here = os.path.dirname(os.path.dirname(os.path.abspath(__file__)))
    work = os.path.join(here, ".work", f"opt-{pid}-{os.getpid()}-{tag}")
    os.makedirs(work, exist_ok=True)
    path = os.path.join(work, "cases.json")
    with open(path, "w") as f:
        json.dump(cases, f)
    try:
        for flag in ("-O", "-OO"):
            args = [sys.executable, "-B", flag, "-m", module] + ([pid, cname] if module == "vf.optchild" else []) + [path]
            p = subprocess.run(args, capture_output=True, text=True, timeout=1800)
            if p.returncode != 0:
                raise HarnessError(f"optimised child failed: {p.stderr[-2000:]}")
            out = json.loads(p.stdout)
            if out["optimize"] < 1:
                raise HarnessError("child did not run optimised")
            if ctx is not None:
                ctx.called(out["calls"])
            if out["violations"]:
                v0 = out["violations"][0]
                v = Violation("optimised:" + v0["bucket"], f"under python {flag}: " + v0["detail"])
                v.case = cases[v0["index"]]
                raise v
    finally:
        try:
            os.remove(path)
            os.rmdir(work)
        except OSError:
            pass


def optimised(pid, base: Clause, quick=64, thorough=640):
    def check(case, ctx):
        """plain replay: the saved case again in -O / -OO children (an ordinary interpreter would not show what these clauses are for)"""
        run_optimised(pid, base.name, [case], "replay", ctx=ctx)

    def custom(ctx, seed, tier, shard, nshards, n):
        strat = base.strategy() if callable(base.strategy) and not hasattr(base.strategy, "example") else base.strategy
        cases = []

        @hseed(seed)
        @settings(max_examples=n + 1, database=None, deadline=None, suppress_health_check=list(HealthCheck))
        @given(strat)
        def collect(c):
            cases.append(c)

        collect()
        cs = cases[:n] if shard == 0 else cases[1:n + 1]
        run_optimised(pid, base.name, cs, str(shard), ctx=ctx)
        for c in cs:
            ctx.begin(c)
            ctx.nontrivial_if(True)
            ctx.label("flags:-O,-OO")
            ctx.end()

    return Clause(name="optimised-interpreter-of-" + base.name, kind="custom", custom=custom, check=check, quick=quick, thorough=thorough,
                  rule=f"the cases of clause {base.name}, judged by the same check function, in child interpreters started with -O and with -OO (assert statements and "
                       f"__debug__ blocks compiled away); a replay file is a plain case of {base.name} and is replayed in such children")
