"""Child interpreter of the C14 cold-start clause: a FRESH process (nothing called before) runs one generated interleaving of jobs on a
shared model under the harness-owned scheduler and prints every job's result as JSON."""
import json
import sys

from vf.osk import mk_model, mk_teams
from vf.props.c14 import run_job
from vf.sched import Scheduler


def main():
    case = json.load(open(sys.argv[1]))
    cfg, jobs = case["cfg"], case["jobs"]
    shared = mk_model(cfg)
    objs = [mk_teams(shared, job["teams"]) for job in jobs]
    thunks = [lambda job=job, o=o: run_job(shared, job, o) for job, o in zip(jobs, objs)]
    s = Scheduler(thunks, [tuple(p) for p in case["points"]], opcodes=bool(case.get("opcodes")), watch=shared, on_write=case.get("on_write") or (), on_touch=case.get("on_touch") or ())
    results, errors = s.run()
    # afterwards: fixed probe calls through the same model (every total player count 2..16, every team count 2..8).  Whatever the interleaved
    # first calls of the process left in lazily built process-wide tables shows here even if none of the jobs looks at the damaged entry.
    from vf.props.c14 import probe_jobs

    probes = []
    for job in probe_jobs(cfg):
        try:
            probes.append(run_job(shared, job))
        except Exception as e:  # noqa: BLE001
            probes.append({"raised": repr(e)})
    json.dump({"probes": probes, "results": results, "errors": [repr(e) if e is not None else None for e in errors], "switches": s.switches, "trace": s.trace, "touches": s.touches}, sys.stdout)


if __name__ == "__main__":
    main()
