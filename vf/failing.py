"""Calls that are NOT supposed to complete normally, as an ingredient of histories (DESIGN.md section 10, 'failing calls').

A long-running application catches exceptions and carries on with the same model object.  Whatever an earlier call that raised
part-way leaves behind - a flag that is reset only on the normal return path, a scratch table that is cleared only at the end, a
half-filled cache entry, a permutation parked on the model - must not change what a LATER, perfectly valid call returns: every
property about valid calls quantifies over models as constructed, whatever happened to them before.  The single-call clauses build a
fresh model per case and never see this; the history machines take steps from this grammar between their valid steps.

All failing calls are made on THROW-AWAY rating objects (never on the objects a history keeps), through the history's long-lived
model; every exception is swallowed (what the failing call itself does is not asserted here - rejected malformed calls are C13's).

kinds
  absurd        rate / predict on ratings far outside the numeric range (OverflowError, ZeroDivisionError or garbage results)
  gamma-raises  a valid rate() whose user-supplied gamma callback raises at its k-th invocation (needs a model built by `tripwire_model`)
  corrupt       a lobby of the model's own rating objects one of which carries a corrupt value (None, a str, 1e200, a Decimal) at a drawn
                position: passes the structural validation and raises while the numbers are being used
  bad-option    a valid lobby with a per-call tau / limit_sigma of a wrong type (Decimal, Fraction, str) whose value EQUALS a float used elsewhere
  malformed     one fault of the C13 grammar (rejected by validation)
  zero-division every sigma 0 with tau = 0
"""
from __future__ import annotations

import decimal
import fractions

from hypothesis import strategies as st

from vf import gen
from vf.osk import call_kwargs, mk_model, mk_teams


class Interrupted(Exception):
    """raised by the harness' gamma wrapper"""


EXC = {"Interrupted": Interrupted, "TypeError": TypeError, "KeyError": KeyError, "ValueError": ValueError, "ZeroDivisionError": ZeroDivisionError,
       "RuntimeError": RuntimeError, "AttributeError": AttributeError}


def tripwire_model(cfg):
    """-> (model, trip): the configured model whose gamma callback is the configured one behind a pass-through wrapper that the harness can
    arm to raise at its k-th invocation.  Unarmed it changes no number."""
    inner = mk_model(cfg).gamma
    trip = {"armed": False, "after": 0, "count": 0, "exc": "Interrupted"}

    def gamma(*a, **kw):
        if trip["armed"]:
            trip["count"] += 1
            if trip["count"] > trip["after"]:
                raise EXC.get(trip.get("exc"), Interrupted)("gamma callback raised (harness)")
        return inner(*a, **kw)

    return mk_model(cfg, gamma=gamma), trip


def _decode(v):
    if isinstance(v, dict) and "decimal" in v:
        return decimal.Decimal(v["decimal"])
    if isinstance(v, dict) and "fraction" in v:
        return fractions.Fraction(v["fraction"])
    return v


@st.composite
def failing_specs(draw, cfg, kinds=("absurd", "gamma-raises", "corrupt", "bad-option", "malformed", "zero-division")):
    beta = cfg["beta"]
    kind = draw(st.sampled_from(list(kinds)))
    op = draw(st.sampled_from(["rate", "rate", "rate", "predict_win", "predict_draw", "predict_rank"]))
    g = draw(gen.games(cfg=cfg, max_teams=4, max_size=3, enc_kinds=["int", "float", "scores", "omitted"], extras=False))
    spec = {"op": "fail", "kind": kind, "call_op": op, "teams": g["teams"], "call": g["call"]}
    n = len(g["teams"])
    if kind == "absurd":
        big = st.sampled_from([1e3, 1e4, -1e4, 1e6, 1e7, 1e150, -1e150])
        sg = st.sampled_from([1e-300, 1e-6, 1.0, 1e6, 1e150, 1e200])
        ti = draw(st.integers(0, n - 1))
        spec["teams"] = [[[draw(big) * beta, draw(sg) * beta] if (i == ti or draw(st.booleans())) else p for p in t] for i, t in enumerate(g["teams"])]
    elif kind == "gamma-raises":
        spec["call_op"] = "rate"
        spec["after"] = draw(st.integers(0, 5))
        spec["exc"] = draw(st.sampled_from(sorted(EXC) + ["TypeError", "TypeError", "KeyError"]))  # what a user's callback raises: a KeyError for an unknown player, a TypeError on a None name ...
    elif kind == "corrupt":
        ti = draw(st.integers(0, n - 1))
        spec["where"] = [ti, draw(st.integers(0, len(g["teams"][ti]) - 1)), draw(st.sampled_from(["mu", "sigma"]))]
        spec["value"] = draw(st.sampled_from([None, "oops", 1e200, -1e200, {"decimal": "25.0"}, [1.0]]))
    elif kind == "bad-option":
        spec["call_op"] = "rate"
        val = draw(st.sampled_from(["0", "0.5", "2", "1", "0.25", "1e-300"]))
        which = draw(st.sampled_from(["tau", "tau", "limit_sigma"]))
        bad = draw(st.sampled_from([{"decimal": val}, {"fraction": val if "e" not in val else "1/2"}, val]))
        spec["option"] = [which, bad if which == "tau" else draw(st.sampled_from(["yes", {"decimal": "1"}, [True]]))]
        if draw(st.booleans()):
            spec["also_limit"] = draw(st.booleans())
    elif kind == "malformed":
        spec["fault"] = draw(st.sampled_from(["teams-tuple", "one-team", "empty-team", "player-none", "ranks-short", "ranks-str", "both-selectors", "team-tuple"]))
    elif kind == "zero-division":
        spec["teams"] = [[[p[0], 0.0] for p in t] for t in g["teams"]]
        spec["call"] = dict(g["call"], tau=0.0)
    return spec


def run_failing(model, spec, trip=None):
    """Executes the failing call; returns a short label of what happened.  Never raises (except harness bugs)."""
    kind = spec["kind"]
    objs = mk_teams(model, spec["teams"])
    kw = call_kwargs(spec.get("call", {})) if spec["call_op"] == "rate" else {}
    if kind == "corrupt":
        ti, pj, attr = spec["where"]
        setattr(objs[ti][pj], attr, _decode(spec["value"]))
    elif kind == "bad-option":
        which, val = spec["option"]
        kw[which] = _decode(val)
        if "also_limit" in spec:
            kw["limit_sigma"] = spec["also_limit"]
    elif kind == "malformed":
        f = spec["fault"]
        if f == "teams-tuple":
            objs = tuple(objs)
        elif f == "one-team":
            objs = objs[:1]
        elif f == "empty-team":
            objs[-1] = []
        elif f == "player-none":
            objs[-1][-1] = None
        elif f == "team-tuple":
            objs[-1] = tuple(objs[-1])
        elif f == "ranks-short":
            kw.pop("scores", None)
            kw["ranks"] = list(range(len(objs) - 1)) or [0]
        elif f == "ranks-str":
            kw.pop("scores", None)
            kw["ranks"] = ["a"] * len(objs)
        elif f == "both-selectors":
            kw["ranks"] = list(range(len(objs)))
            kw["scores"] = list(range(len(objs)))
    if kind == "gamma-raises" and trip is not None:
        trip.update(armed=True, after=int(spec.get("after", 0)), count=0, exc=spec.get("exc", "Interrupted"))
    try:
        fn = getattr(model, spec["call_op"])
        fn(objs, **kw) if spec["call_op"] == "rate" else fn(objs)
        return "completed"
    except Exception as e:  # noqa: BLE001 - the failing call may raise anything; only LATER valid calls are judged
        return "raised:" + type(e).__name__
    finally:
        if trip is not None:
            trip["armed"] = False


def run_mirror(model, cfg, teams, call, spec):
    """The judged call itself, made once BEFORE on throw-away ratings with ONE number replaced by a Decimal / Fraction of exactly the same
    value (`Decimal(1) == 1`, equal hashes): rejected with TypeError by a correct library; a table keyed by the argument values must not
    have been poisoned for the proper call that follows."""
    import copy

    objs = mk_teams(model, teams)
    kw = call_kwargs(call)
    conv = decimal.Decimal if spec.get("as") == "decimal" else fractions.Fraction
    what = spec.get("what")
    try:
        if what == "outcome":
            key = "ranks" if "ranks" in kw else "scores" if "scores" in kw else None
            if key is None:
                return "not-applicable"
            vals = list(kw[key])
            i = spec.get("idx", 0) % len(vals)
            if isinstance(vals[i], bool):
                return "not-applicable"
            vals[i] = conv(vals[i])
            kw[key] = vals
        else:
            t = kw.get("tau", cfg["tau"])
            kw["tau"] = conv(t)
    except Exception:  # noqa: BLE001 - e.g. a value the conversion does not take
        return "not-applicable"
    try:
        model.rate(copy.copy(objs), **kw)
        return "completed"
    except Exception as e:  # noqa: BLE001
        return "raised:" + type(e).__name__
