"""Runner: ./check <Cxx> [--tier quick|thorough] [--replay FILE] [--clause NAME] [--scale F]

Exit codes: 0 property held on everything explored (KNOWN-FINDING lines allowed);
            1 at least one `VIOLATION property=<id> replay=<path>` line;
            2 harness error (never a verdict about the code under test).
"""
from __future__ import annotations

import argparse
import collections
import importlib
import json
import multiprocessing
import os
import subprocess
import sys
import time
import traceback

from vf.core import Clause, Ctx, HarnessError, Property, Violation, canon, case_hash

HERE = os.path.dirname(os.path.dirname(os.path.abspath(__file__)))
TREE = os.environ.get("VERIF_TREE", "/repo")
NPROC = int(os.environ.get("VERIF_NPROC", "16"))
MAX_ROUNDS = 3


def load_property(pid: str) -> Property:
    mod = importlib.import_module("vf.props." + pid.lower())
    return mod.PROPERTY


def assert_tree() -> None:
    import openskill

    f = os.path.realpath(openskill.__file__)
    if not f.startswith(os.path.realpath(TREE) + os.sep):
        raise HarnessError(f"openskill imported from {f}, expected under {TREE}")


def load_known(pid: str):
    """known_findings.txt ->  {bucket: text} for `open:` entries of this property."""
    path = os.path.join(HERE, "known_findings.txt")
    out = {}
    if not os.path.exists(path):
        return out
    for line in open(path):
        line = line.strip()
        if not line.startswith("open:"):
            continue
        body = line[len("open:"):].strip()
        fields = dict(tok.split("=", 1) for tok in body.split() if "=" in tok and tok.split("=", 1)[0] in ("property", "bucket"))
        if fields.get("property") == pid and "bucket" in fields:
            text = body.split("bucket=" + fields["bucket"], 1)[1].strip()
            out[fields["bucket"]] = text
    return out


# ------------------------------------------------------------------------------------------
# worker side
# ------------------------------------------------------------------------------------------
def _settings(n, steps=None):
    from hypothesis import HealthCheck, Phase, Verbosity, settings

    kw = dict(
        max_examples=n,
        database=None,
        deadline=None,
        derandomize=False,
        report_multiple_bugs=False,
        suppress_health_check=list(HealthCheck),
        phases=(Phase.explicit, Phase.generate, Phase.target, Phase.shrink),
        print_blob=False,
        verbosity=Verbosity.quiet,
    )
    if steps is not None:
        kw["stateful_step_count"] = steps
    return settings(**kw)


def run_task(task):
    """One (clause, shard): returns a JSON-able dict with statistics, failures, harness errors."""
    t0 = time.time()
    pid, cname = task["prop"], task["clause"]
    out = {"prop": pid, "clause": cname, "shard": task["shard"], "failures": [], "harness_error": None}
    ctx = Ctx(pid, cname, known=task["known"], skip=task["skip"])
    try:
        assert_tree()
        prop = load_property(pid)
        clause = next(c for c in prop.clauses if c.name == cname)
        seed = task["seed"]
        n = task["n"]
        if clause.kind == "given":
            _run_given(clause, ctx, seed, n, out)
        elif clause.kind == "stateful":
            _run_stateful(clause, ctx, seed, n, task["steps"], out)
        elif clause.kind == "custom":
            try:
                clause.custom(ctx, seed, task["tier"], task["shard"], task["nshards"], n)
            except Violation as v:
                case = getattr(v, "case", None)
                out["failures"].append({"bucket": v.bucket, "detail": v.detail, "case": case})
        else:
            raise HarnessError("unknown clause kind " + clause.kind)
    except BaseException as e:  # noqa: BLE001 - reported as exit 2 by the parent
        out["harness_error"] = "".join(traceback.format_exception(type(e), e, e.__traceback__))[-6000:]
    out.update(ctx.result())
    out["wall_s"] = time.time() - t0
    return out


SHRINK_BUDGET_S = float(os.environ.get("VERIF_SHRINK_S", "20"))


class StopShrink(BaseException):
    """Raised (as a BaseException, which Hypothesis does not treat as a test failure) to end a shrink that has used its
    time budget; the most recent failing case recorded in `last` is then reported."""


def _is_flaky(e):
    try:
        from hypothesis.errors import Flaky

        return isinstance(e, Flaky)
    except Exception:  # noqa: BLE001
        return False


def _check_shrink_budget(last):
    if "t0" in last and time.time() > last["t0"] + SHRINK_BUDGET_S:
        last["stopped"] = True
        raise StopShrink()


def _accept_failure(last, v, case):
    """Decide whether a Violation seen by Hypothesis is propagated (True) or swallowed (False).

    - the shrink stays inside the bucket found first (other buckets are found in later rounds);
    - after SHRINK_BUDGET_S seconds of shrinking only cases that already failed are allowed to fail again, so the shrinker
      runs out of improvements quickly and Hypothesis' final replay of its best example still fails (bounded shrink time;
      Hypothesis' own cap is 5 minutes)."""
    h = case_hash(case)
    if "bucket" in last:
        if v.bucket != last["bucket"]:
            return False
    else:
        last["t0"] = time.time()
        last["seen"] = set()
        last["bucket"] = v.bucket
    last["seen"].add(h)
    last["case"] = case
    last["v"] = v
    return True


def _run_given(clause, ctx, seed, n, out):
    from hypothesis import given
    from hypothesis import seed as hseed

    strat = clause.strategy() if callable(clause.strategy) and not hasattr(clause.strategy, "example") else clause.strategy
    last = {}

    @hseed(seed)
    @_settings(n)
    @given(strat)
    def test(case):
        _check_shrink_budget(last)
        ctx.begin(case)
        try:
            clause.check(case, ctx)
        except Violation as v:
            if ctx.route(v, case):
                ctx.end()
                return
            if not _accept_failure(last, v, case):
                return
            raise
        ctx.end()

    try:
        test()
    except BaseException as e:  # noqa: BLE001
        # Hypothesis may wrap the StopShrink abort (e.g. into FlakyStrategyDefinition): recognised by last["stopped"].
        # A Flaky* error after a recorded Violation means the failure did not repeat identically when Hypothesis replayed the case:
        # the violation was observed on real outputs, it merely depends on what ran before (a cache, a shared returned object);
        # it is reported with the preceding cases as prefix.
        if "v" not in last or not (isinstance(e, (Violation, StopShrink)) or last.get("stopped") or _is_flaky(e)):
            raise
        v = last["v"]
        prefix = [c for c in ctx.recent if c is not last["case"]]
        out["failures"].append({"bucket": v.bucket, "detail": v.detail, "case": last["case"], "prefix": prefix})


def _run_stateful(clause, ctx, seed, n, steps, out):
    from hypothesis import seed as hseed
    from hypothesis.stateful import run_state_machine_as_test

    last = {}

    def on_fail(history, v):
        # returns False when the failure must be swallowed (see _accept_failure)
        _check_shrink_budget(last)
        if v is None:
            return True
        return _accept_failure(last, v, history)

    machine = clause.machine(ctx, on_fail)
    try:
        run_state_machine_as_test(hseed(seed)(machine), settings=_settings(n, steps))
    except BaseException as e:  # noqa: BLE001
        if "v" not in last or not (isinstance(e, (Violation, StopShrink)) or last.get("stopped") or _is_flaky(e)):
            raise
        v = last["v"]
        prefix = [c for c in ctx.recent if c is not last["case"]]
        out["failures"].append({"bucket": v.bucket, "detail": v.detail, "case": last["case"], "prefix": prefix})


# ------------------------------------------------------------------------------------------
# parent side
# ------------------------------------------------------------------------------------------
def replay_file(prop: Property, path: str, known):
    """Run one saved case through its plain check function (no Hypothesis). Returns (status, text)."""
    rec = json.load(open(path))
    clause = next((c for c in prop.clauses if c.name == rec["clause"]), None)
    if clause is None or clause.check is None:
        raise HarnessError(f"replay {path}: clause {rec.get('clause')} has no plain check function")
    ctx = Ctx(prop.pid, clause.name, known=known)
    for pc in rec.get("prefix") or []:
        # history-dependent failure: the cases that ran before it in the same process are part of the reproduction
        try:
            ctx.begin(pc)
            clause.check(pc, ctx)
        except Violation:
            pass
    ctx.begin(rec["case"])
    try:
        clause.check(rec["case"], ctx)
    except Violation as v:
        if v.bucket in known:
            return "known", v.bucket, v.detail, ctx
        return "violation", v.bucket, v.detail, ctx
    ctx.end()
    return "ok", None, None, ctx


def write_replay(pid, clause, bucket, detail, case, prefix=None, prop=None, known=None):
    d = os.path.join(HERE, "replays", pid)
    os.makedirs(d, exist_ok=True)
    safe = "".join(ch if ch.isalnum() or ch in "-_." else "_" for ch in bucket)[:60]
    path = os.path.join(d, f"{clause}-{safe}-{case_hash(case)[:12]}.json")
    rec = {"property": pid, "clause": clause, "bucket": bucket, "detail": detail, "case": case}

    def dump():
        with open(path, "w") as f:
            json.dump(rec, f, indent=1, default=repr)

    dump()
    if prefix and prop is not None:
        # does the shrunk case reproduce on its own (in this process, which has not run the shard)?  If not, the failure depends
        # on what ran before it in the worker: keep those cases in the replay file.
        try:
            status = replay_file(prop, path, known or {})[0]
        except BaseException:  # noqa: BLE001
            status = "error"
        if status == "ok":
            rec["prefix"] = prefix
            rec["note"] = "history-dependent: the case alone passes in a fresh process; 'prefix' holds the cases that ran before it in the failing worker"
            dump()
    return path


def tree_info():
    try:
        top = subprocess.run(["git", "-C", TREE, "rev-parse", "--show-toplevel"], capture_output=True, text=True).stdout.strip()
        head = subprocess.run(["git", "-C", TREE, "rev-parse", "HEAD"], capture_output=True, text=True).stdout.strip()
        dirty = bool(subprocess.run(["git", "-C", TREE, "status", "--porcelain", "--untracked-files=no"], capture_output=True, text=True).stdout.strip())
        return {"path": TREE, "git_top": top, "commit": head, "dirty": dirty}
    except Exception as e:  # noqa: BLE001
        return {"path": TREE, "error": repr(e)}


def main(argv=None):
    ap = argparse.ArgumentParser()
    ap.add_argument("prop")
    ap.add_argument("--tier", default=os.environ.get("VERIF_TIER", "quick"), choices=["quick", "thorough"])
    ap.add_argument("--replay")
    ap.add_argument("--clause", action="append")
    ap.add_argument("--scale", type=float, default=float(os.environ.get("VERIF_SCALE", "1")))
    ap.add_argument("--no-evidence", action="store_true")
    args = ap.parse_args(argv)
    pid = args.prop.upper()
    try:
        seed = int(os.environ.get("VERIF_SEED", "1"))
    except ValueError:
        seed = 1
    t0 = time.time()
    try:
        assert_tree()
        prop = load_property(pid)
        known = load_known(pid)
    except BaseException as e:  # noqa: BLE001
        traceback.print_exc()
        print(f"HARNESS-ERROR property={pid} {e!r}")
        return 2

    if args.replay:
        try:
            status, bucket, detail, _ = replay_file(prop, args.replay, known)
        except BaseException as e:  # noqa: BLE001
            traceback.print_exc()
            print(f"HARNESS-ERROR property={pid} {e!r}")
            return 2
        if status == "violation":
            print(f"replay: {bucket}: {detail}")
            print(f"VIOLATION property={pid} replay={args.replay}")
            return 1
        if status == "known":
            print(f"KNOWN-FINDING: property={pid} {bucket} {known[bucket]}")
            return 0
        print(f"replay ok: property={pid} {args.replay}")
        return 0

    violations = []  # (bucket, path, detail)
    known_seen = {}
    harness_errors = []
    merged = {}  # clause -> aggregated stats

    def agg(cname):
        return merged.setdefault(
            cname,
            {"evaluations": 0, "calls": 0, "nontrivial": set(), "labels": collections.Counter(), "excluded": collections.Counter(),
             "maxima": {}, "samples": [], "exhaustive": collections.Counter(), "wall_s": 0.0, "shards": 0},
        )

    def absorb(res):
        a = agg(res["clause"])
        a["evaluations"] += res["evaluations"]
        a["calls"] += res["calls"]
        a["nontrivial"].update(res["nontrivial"])
        a["labels"].update(res["labels"])
        a["excluded"].update(res["excluded"])
        a["exhaustive"].update(res["exhaustive"])
        for k, v in res["maxima"].items():
            if v > a["maxima"].get(k, float("-inf")):
                a["maxima"][k] = v
        if len(a["samples"]) < 4:
            a["samples"].extend(res["samples"][: 4 - len(a["samples"])])
        a["wall_s"] += res.get("wall_s", 0.0)
        a["shards"] += 1
        for b, rec in res["known_seen"].items():
            cur = known_seen.setdefault(b, {"count": 0, "case": rec["case"], "detail": rec["detail"], "clause": res["clause"]})
            cur["count"] += rec["count"]

    # 1. committed regression replays (seconds), both tiers
    regdir = os.path.join(HERE, "regressions", pid)
    n_reg = 0
    if os.path.isdir(regdir) and not os.environ.get("VERIF_NO_REGRESSIONS"):  # (the variable is for measuring what the generators alone reach)
        for fn in sorted(os.listdir(regdir)):
            if not fn.endswith(".json"):
                continue
            path = os.path.join(regdir, fn)
            try:
                status, bucket, detail, rctx = replay_file(prop, path, known)
            except BaseException as e:  # noqa: BLE001
                harness_errors.append(f"replay {path}: " + "".join(traceback.format_exception(type(e), e, e.__traceback__))[-3000:])
                continue
            n_reg += 1
            rr = rctx.result()
            rr["known_seen"] = {}
            absorb(rr)
            merged[rr["clause"]]["shards"] -= 1
            if status == "violation":
                violations.append((bucket, path, detail, rr["clause"]))
            elif status == "known":
                cur = known_seen.setdefault(bucket, {"count": 0, "case": None, "detail": detail, "clause": rr["clause"]})
                cur["count"] += 1

    # 2. generated search, sharded
    clauses = [c for c in prop.clauses if not args.clause or c.name in args.clause]
    tasks = []
    for ci, c in enumerate(clauses):
        total = int((c.quick if args.tier == "quick" else c.thorough) * args.scale)
        if total <= 0:
            continue
        nsh = c.shards_quick if args.tier == "quick" else c.shards_thorough
        nsh = max(1, min(nsh, total)) if c.kind != "custom" else max(1, nsh)
        per = max(1, total // nsh)
        for k in range(nsh):
            tasks.append({
                "prop": pid, "clause": c.name, "shard": k, "nshards": nsh, "tier": args.tier,
                "seed": (seed * 1000 + k) * 101 + ci, "n": per,
                "steps": c.steps_quick if args.tier == "quick" else c.steps_thorough,
                "known": known, "skip": [],
            })
    # interleave clauses so that expensive ones do not all land at the end
    tasks.sort(key=lambda t: (t["shard"], t["clause"]))
    reported = set(b for b, _, _, _ in violations)
    pending = tasks
    ctxmp = multiprocessing.get_context("spawn")
    rounds = 0
    with ctxmp.Pool(min(NPROC, max(1, len(tasks)))) as pool:
        while pending and rounds < MAX_ROUNDS:
            rounds += 1
            again = []
            for res in pool.imap_unordered(run_task, pending):
                absorb(res)
                if res["harness_error"]:
                    harness_errors.append(f"{res['clause']}[{res['shard']}]: {res['harness_error']}")
                for f in res["failures"]:
                    if f["bucket"] not in reported:
                        reported.add(f["bucket"])
                        path = write_replay(pid, res["clause"], f["bucket"], f["detail"], f["case"], f.get("prefix"), prop, known)
                        violations.append((f["bucket"], path, f["detail"], res["clause"]))
                if res["failures"]:
                    t = next(t for t in pending if t["clause"] == res["clause"] and t["shard"] == res["shard"])
                    again.append(t)
            # later rounds search behind the buckets already reported; a handful of shards per clause is enough for that
            per_clause = collections.Counter()
            keep = []
            for t in again:
                per_clause[t["clause"]] += 1
                if per_clause[t["clause"]] <= 4:
                    t["skip"] = sorted(reported)
                    t["seed"] += 7919
                    keep.append(t)
            pending = keep

    wall = time.time() - t0

    # 3. evidence
    total_eval = sum(a["evaluations"] for a in merged.values())
    nontriv = set()
    for cname, a in merged.items():
        nontriv.update(cname + ":" + h for h in a["nontrivial"])
    samples = []
    for cname, a in merged.items():
        for s in a["samples"][:3]:
            samples.append({"clause": cname, "case": s})
    labels = {c: dict(a["labels"].most_common(60)) for c, a in merged.items() if a["labels"]}
    evidence = {
        "property_id": pid,
        "tier": args.tier,
        "seed": seed,
        "level": prop.level,
        "coverage": {
            "evaluations": total_eval,
            "distinct_nontrivial": len(nontriv),
            "rule": prop.rule,
            "samples": samples[:24],
            "calls_into_code_under_test": sum(a["calls"] for a in merged.values()),
            "clauses": {
                c: {"evaluations": a["evaluations"], "distinct_nontrivial": len(a["nontrivial"]), "calls": a["calls"], "shards": a["shards"],
                    "cpu_s": round(a["wall_s"], 2), "rule": next((x.rule for x in prop.clauses if x.name == c), "")}
                for c, a in merged.items()
            },
            "labels": labels,
            "excluded": {c: dict(a["excluded"]) for c, a in merged.items() if a["excluded"]},
            "exhaustive_subspaces": {c: dict(a["exhaustive"]) for c, a in merged.items() if a["exhaustive"]},
            "observed_maxima": {c: a["maxima"] for c, a in merged.items() if a["maxima"]},
            "regression_replays": n_reg,
            "rounds": rounds,
            "known_findings_seen": {b: {"count": r["count"], "clause": r["clause"], "detail": r["detail"]} for b, r in known_seen.items()},
            "tree": tree_info(),
            "exhaustive": False,
        },
        "assumptions": prop.assumptions,
        "wall_s": round(wall, 2),
        "violations": len(violations),
    }
    if not args.no_evidence and not args.clause:
        try:
            import jsonschema

            schema = json.load(open("/root/.vp/EVIDENCE.schema.json")) if os.path.exists("/root/.vp/EVIDENCE.schema.json") else json.load(open(os.path.join(HERE, "vf", "EVIDENCE.schema.json")))
            text = json.dumps(evidence, indent=1, default=repr)
            jsonschema.validate(json.loads(text), schema)
            os.makedirs(os.path.join(HERE, "evidence"), exist_ok=True)
            with open(os.path.join(HERE, "evidence", pid + ".json"), "w") as f:
                f.write(text + "\n")
        except BaseException as e:  # noqa: BLE001
            harness_errors.append("evidence: " + repr(e)[:2000])

    # 4. verdict
    print(f"[{pid}] tier={args.tier} seed={seed} cases={total_eval} nontrivial={len(nontriv)} calls={evidence['coverage']['calls_into_code_under_test']} wall={wall:.1f}s rounds={rounds}")
    for c, a in merged.items():
        print(f"  clause {c}: cases={a['evaluations']} nontrivial={len(a['nontrivial'])} excluded={dict(a['excluded'])}")
    for b, r in known_seen.items():
        print(f"KNOWN-FINDING: property={pid} {b} {known.get(b, '')} (seen {r['count']}x in clause {r['clause']})")
    for bucket, path, detail, cname in violations:
        print(f"  violation clause={cname} bucket={bucket}: {detail[:600]}")
        print(f"VIOLATION property={pid} replay={path}")
    if harness_errors:
        for h in harness_errors[:5]:
            print("HARNESS-ERROR " + h, file=sys.stderr)
        print(f"HARNESS-ERROR property={pid} ({len(harness_errors)} errors; see stderr)")
        return 1 if violations else 2
    return 1 if violations else 0


if __name__ == "__main__":
    sys.exit(main())
