"""Child interpreter of C13's optimised-interpreter clause: the fault enumeration of vf.props.c13 on serialised cases, run under
`python -O` / `-OO` (assert statements and `if __debug__:` blocks are compiled away).  Prints [{index, bucket, detail}] as JSON."""
import json
import sys

from vf.core import Ctx, Violation
from vf.props.c13 import check_c13


def main():
    cases = json.load(open(sys.argv[1]))
    out = []
    calls = 0
    for k, case in enumerate(cases):
        ctx = Ctx("C13", "optimised-interpreter")
        ctx.begin(case)
        try:
            check_c13(case, ctx)
        except Violation as v:
            out.append({"index": k, "bucket": v.bucket, "detail": v.detail})
        calls += ctx.calls
    json.dump({"violations": out, "calls": calls, "optimize": sys.flags.optimize}, sys.stdout)


if __name__ == "__main__":
    main()
