"""Child interpreter of the C17 revisit clause: the first points are the very first evaluations of the process; then K evaluations at ever
new points; then the first points again.  Prints both lists of results (repr keeps floats exact)."""
import json
import random
import sys

from openskill.models.weng_lin import common as c


def ev(x, t):
    out = []
    for f in (c.v, c.w, c.vt, c.wt):
        try:
            out.append(f(x, t))
        except Exception as e:  # noqa: BLE001
            out.append("raised:" + type(e).__name__)
    try:
        out.append(c.phi_major(x))
    except Exception as e:  # noqa: BLE001
        out.append("raised:" + type(e).__name__)
    return out


def main():
    spec = json.load(open(sys.argv[1]))
    first = [ev(x, t) for x, t in spec["first"]]
    rng = random.Random(spec["prng"])
    for _ in range(spec["K"]):
        ev(rng.uniform(-12.0, 12.0), 10.0 ** rng.uniform(-8.0, -2.0))
    again = [ev(x, t) for x, t in spec["first"]]
    json.dump({"first": first, "again": again}, sys.stdout)


if __name__ == "__main__":
    main()
