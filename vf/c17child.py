"""Child interpreter of the C17 revisit clause: the first points are the very first evaluations of the process; then K evaluations at ever
new points; then the first points again.  Prints both lists of results (repr keeps floats exact)."""
import json
import random
import sys

from openskill.models.weng_lin import common as c


def ev(x, t):
    out = []
    for f in (c.v, c.w, c.vt, c.wt):
        try:
            out.append(f(x, t))
        except Exception as e:  # noqa: BLE001
            out.append("raised:" + type(e).__name__)
    try:
        out.append(c.phi_major(x))
    except Exception as e:  # noqa: BLE001
        out.append("raised:" + type(e).__name__)
    return out


def main():
    import decimal
    import fractions

    spec = json.load(open(sys.argv[1]))
    first = [ev(x, t) for x, t in spec["first"]]
    # the second set of points is FIRST asked for with the same numbers in wrong types (whatever happens is swallowed) ...
    for x, t in spec.get("second", []):
        for conv in (decimal.Decimal, fractions.Fraction, str, lambda z: None):
            try:
                bx, bt = conv(x), conv(t)
            except Exception:  # noqa: BLE001
                continue
            for args in ((bx, t), (x, bt), (bx, bt)):
                for f in (c.v, c.w, c.vt, c.wt):
                    try:
                        f(*args)
                    except Exception:  # noqa: BLE001
                        pass
            try:
                c.phi_major(bx)
            except Exception:  # noqa: BLE001
                pass
    # ... and then properly
    second = [ev(x, t) for x, t in spec.get("second", [])]
    rng = random.Random(spec["prng"])
    for _ in range(spec["K"]):
        ev(rng.uniform(-12.0, 12.0), 10.0 ** rng.uniform(-8.0, -2.0))
    json.dump({"first": first, "first_again": [ev(x, t) for x, t in spec["first"]],
               "second": second, "second_again": [ev(x, t) for x, t in spec.get("second", [])]}, sys.stdout)


if __name__ == "__main__":
    main()
