"""Exact Gaussian functions in mpmath (DESIGN.md 4.3): Phi, phi, V, W, V~, W~ of Weng & Lin (2011)."""
from __future__ import annotations

import sys

import mpmath as mp

mp.mp.dps = 50
M = mp.mpf
EPS = M(sys.float_info.epsilon)


def Phi(x):
    return mp.ncdf(x)


def phi(x):
    return mp.npdf(x)


def V(x, t):
    return phi(x - t) / Phi(x - t)


def W(x, t):
    v = V(x, t)
    return v * (v + x - t)


def Vt(x, t):
    xx = abs(x)
    b = Phi(t - xx) - Phi(-t - xx)
    a = phi(-t - xx) - phi(t - xx)
    return (-a if x < 0 else a) / b


def Wt(x, t):
    xx = abs(x)
    b = Phi(t - xx) - Phi(-t - xx)
    return ((t - xx) * phi(t - xx) + (t + xx) * phi(-t - xx)) / b + Vt(x, t) ** 2


def band(x, t):
    """Gaussian mass of the draw band: Phi(t-|x|) - Phi(-t-|x|)."""
    xx = abs(x)
    return Phi(t - xx) - Phi(-t - xx)
