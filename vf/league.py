"""League histories with per-step oracles (multi-step sequences on ONE model with rating OBJECTS that live on).

The single-call clauses build a fresh model and fresh ratings for every case.  What they cannot see is anything that needs a
sequence of operations on the same objects: the ratings returned by one call passed into the next, the very list object a call
returned handed back as the next lobby, one rating object taking part in many games, predictions interleaved with updates,
per-call options alternating, "every k-th call".  This module provides one history class, `OracleLeague`, whose steps are

    play     rate() on a drawn partition of a drawn subset of the pool (fresh list objects), any outcome encoding / options;
             afterwards the pool keeps either the RETURNED objects or the objects that were PASSED IN (both are what users do)
    replay   rate() on the very list object the previous play returned (new outcome / options)
    predict  the three predictions on a drawn lobby (a history ingredient; asserted only by the C08 league)

and a set of per-step oracles that the property modules select:

    slots      C02  shape, id and name per slot, no duplicates, passed-in objects all untouched or all equal to the returned ones
    ref        C01  every returned (mu, sigma) inside the interval of the independent mpmath reference evaluated on the values the
                    objects held immediately before the call
    balance    C07  precision-weighted mu change sums to zero (the single-call oracle applied to the observed step)
    direction  C05  first / last place, same direction, proportional to own variance (single-call oracle (a) applied to the step)
    total      C08  no exception, every number finite (rate and the three predictions)
    sigma      C06  the single-call sigma bounds on the observed step + the quadrature bound sqrt(sigma0^2 + sum tau^2) per player object

A player whose rating leaves the numeric domain the properties quantify over is replaced by a new account with the seat's initial values.
"""
from __future__ import annotations

import math

from hypothesis import strategies as st

from vf import failing, gen
from vf.core import Violation
from vf.osk import IS_TM, call_kwargs, eff_limit, eff_tau, guarded, mk_model, outcome_values, vals
from vf.refmodel import compare, reference

HIST_GAMMAS = ["default", "default", "default", "half_default", "inv_k", "one", "zero", "inv_rank", "inv_size", "mu_dep", "team_sigma"]
T_LO, T_HI = 1e-8, 1e-2


def _family(kind):
    return {"PL": "PL", "BTF": "BT", "BTP": "BT", "TMF": "TM", "TMP": "TM"}[kind]


class OracleLeague:
    ORACLES = ("slots", "ref", "balance", "direction", "total")
    ENC = ["int", "int_relabel", "float", "mixed", "small_ints", "scores", "scores_small", "scores_float", "omitted", "half_grid", "zero_neg"]
    MAX_TEAMS = 6
    MAX_SIZE = 3

    def __init__(self, first, ctx):
        self.cfg = first["cfg"]
        self.first = first
        self.ctx = ctx
        self.model, self.trip = failing.tripwire_model(self.cfg)
        self.n_failed = 0
        self.players = [self.model.rating(p[0], p[1], name=f"p{i}") for i, p in enumerate(first["players"])]
        self.ids = [p.id for p in self.players]
        self.names = [p.name for p in self.players]
        self.games = [0] * len(self.players)
        self.bound_sq = [p[1] * p[1] for p in first["players"]]
        self.n_games = 0
        self.n_replays = 0
        self.n_predicts = 0
        self.kept_inputs = 0
        self.retired = set()
        self.last = None  # (teams_idx, list object returned by the last play)
        self.nontrivial = False
        self.labels = ["kind:" + self.cfg["kind"], "gamma:" + self.cfg["gamma"]]

    @classmethod
    def init_strategy(cls):
        @st.composite
        def init(draw):
            cfg = draw(gen.configs(gammas=HIST_GAMMAS))
            beta = cfg["beta"]
            n = draw(st.integers(5, 12))
            style = draw(st.sampled_from(["spread", "spread", "new-players", "settled"]))
            players = []
            for _ in range(n):
                if style == "new-players":
                    players.append([cfg["mu"], cfg["sigma"]])
                elif style == "settled":
                    players.append([draw(st.floats(-3.0, 9.0)) * beta, draw(st.floats(0.02, 0.5)) * beta])
                else:
                    players.append([draw(st.floats(-3.0, 9.0)) * beta, draw(st.one_of(st.just(2.0), st.floats(0.05, 10.0))) * beta])
            return {"op": "init", "cfg": cfg, "players": players, "style": style}

        return init()

    # ---- helpers ---------------------------------------------------------------------------------
    def active(self):
        return [i for i in range(len(self.players)) if i not in self.retired]

    def _in_domain(self, r):
        beta = self.cfg["beta"]
        return isinstance(r.sigma, (int, float)) and not isinstance(r.sigma, bool) and isinstance(r.mu, (int, float)) and not isinstance(r.mu, bool) and math.isfinite(r.mu) and math.isfinite(r.sigma) \
            and 1e-4 * beta <= r.sigma <= 10 * beta and abs(r.mu) <= 20 * beta

    def _reseat(self, i):
        """player i has left the numeric domain the properties quantify over (sigma below 1e-4 beta or above 10 beta, |mu| above 20 beta): the
        seat is taken by a new account with the seat's initial values (the old object is never passed again)"""
        mu, sigma = self.first["players"][i]
        self.players[i] = self.model.rating(mu, sigma, name=self.names[i])
        self.ids[i] = self.players[i].id
        self.bound_sq[i] = sigma * sigma
        if "reseated" not in self.labels:
            self.labels.append("reseated")

    def _synthetic_case(self, prior, call, got):
        n = len(prior)
        values = outcome_values(n, call)
        return {"cfg": self.cfg, "teams": [[list(p) for p in t] for t in prior], "call": call, "classes": gen.dense(values),
                "meta": {"regime": "history", "enc": "history"}, "_observed": got}

    # ---- one step ----------------------------------------------------------------------------------
    def apply(self, step):
        op = step["op"]
        if op == "predict":
            return self._predict(step)
        if op == "fail":
            # a call on throw-away ratings through the league's model that does not complete normally (vf/failing.py): nothing is asserted
            # about it; the valid games that FOLLOW are judged as always
            what = failing.run_failing(self.model, step, self.trip)
            self.n_failed += 1
            lab = "failed-call:" + step["kind"] + ":" + what.split(":")[0]
            if lab not in self.labels:
                self.labels.append(lab)
            self.ctx.called()
            return
        if op == "replay":
            if self.last is None:
                return
            teams_idx, objs = self.last
            if any(i in self.retired for t in teams_idx for i in t):
                return
            # the pool may have kept the INPUT objects of that game: then the returned list holds other objects than the pool.
            # Hand back the returned list only when it still holds the pool's current objects (the usual "rate the result again").
            if any(objs[a][b] is not self.players[i] for a, t in enumerate(teams_idx) for b, i in enumerate(t)):
                return
            call = step["call_by_n"].get(str(len(objs)), {})  # a shrunk history may have changed the previous game's size: then no ranks
            self.n_replays += 1
            return self._play(teams_idx, objs, call, step.get("keep", "returned"))
        teams_idx = step["teams"]
        objs = [[self.players[i] for i in t] for t in teams_idx]
        return self._play(teams_idx, objs, step["call"], step.get("keep", "returned"))

    def _play(self, teams_idx, objs, call, keep):
        kind = self.cfg["kind"]
        n = len(teams_idx)
        prior = [[(p.mu, p.sigma) for p in t] for t in objs]
        inputs = [list(t) for t in objs]
        res = guarded(self.model.rate, objs, what="rate", **call_kwargs(call))
        self.ctx.called()
        self.n_games += 1
        where = f"{kind} game {self.n_games} teams={teams_idx} call={call}"
        orc = self.ORACLES

        # --- slots (C02) --------------------------------------------------------------------------
        if not isinstance(res, list) or len(res) != n or any(not isinstance(t, list) or len(t) != len(teams_idx[a]) for a, t in enumerate(res)):
            if "slots" in orc:
                raise Violation("history:shape", f"{where}: result shape {[len(t) if hasattr(t, '__len__') else t for t in res] if isinstance(res, list) else res!r}")
            raise Violation("history:unusable-result", f"{where}: result does not have the shape of the input")
        if "slots" in orc:
            seen = set()
            for a, t in enumerate(teams_idx):
                for b, i in enumerate(t):
                    r = res[a][b]
                    if r.id != self.ids[i] or r.name != self.names[i]:
                        raise Violation("history:identity", f"{where}: result[{a}][{b}] carries {r.id[:8]}/{r.name}, the player passed there is {self.ids[i][:8]}/{self.names[i]}")
                    if r.id in seen:
                        raise Violation("history:duplicated", f"{where}: id {r.id[:8]} twice in the result")
                    seen.add(r.id)
            touched = [[(p.mu, p.sigma) != prior[a][b] for b, p in enumerate(t)] for a, t in enumerate(inputs)]
            equal_ret = [[(p.mu, p.sigma) == (res[a][b].mu, res[a][b].sigma) for b, p in enumerate(t)] for a, t in enumerate(inputs)]
            if any(any(r) for r in touched) and not all(all(r) for r in equal_ret):
                raise Violation("history:inputs-mixture", f"{where}: passed-in objects are a mixture: touched={touched} equal-to-returned={equal_ret}")
            for a, t in enumerate(inputs):
                for b, p in enumerate(t):
                    if p.id != self.ids[teams_idx[a][b]] or p.name != self.names[teams_idx[a][b]]:
                        raise Violation("history:input-identity-changed", f"{where}: the object passed at [{a}][{b}] now carries {p.id[:8]}/{p.name}")
        got = vals(res)

        # --- total (C08) --------------------------------------------------------------------------
        if "total" in orc:
            for a, t in enumerate(got):
                for b, (m, s) in enumerate(t):
                    if not (isinstance(m, (int, float)) and not isinstance(m, bool) and isinstance(s, (int, float)) and not isinstance(s, bool) and math.isfinite(m) and math.isfinite(s)):
                        raise Violation("history:nonfinite", f"{where}: result[{a}][{b}] = ({m!r}, {s!r})")

        case = self._synthetic_case(prior, call, got)
        values = outcome_values(n, call)
        tau = eff_tau(self.cfg, call)
        lim = eff_limit(self.cfg, call)

        # --- ref (C01 / C02 values) ----------------------------------------------------------------
        if "ref" in orc:
            ref, diag = reference(kind, case["teams"], values, self.cfg["beta"], self.cfg["kappa"], tau, self.cfg["gamma"], lim,
                                  tmp_factor=2 if kind == "TMP" else 1)
            if kind in IS_TM and not (T_LO <= diag["t_min"] and diag["t_max"] <= T_HI):
                self.ctx.exclude("tm-margin-outside-[1e-8,1e-2]")
            elif kind in IS_TM and "slots" in orc and diag["max_abs_x"] >= 5.0:
                self.ctx.exclude("tm-tail (owned by C01)")
            else:
                ok, wm, ws, bad = compare(got, ref)
                self.ctx.maxi(f"history:{_family(kind)}:mu_error/allowance", wm)
                self.ctx.maxi(f"history:{_family(kind)}:sigma_error/allowance", ws)
                if not ok:
                    raise Violation(f"history:{_family(kind)}:not-the-posterior",
                                    f"{where}: result[{bad[0]}][{bad[1]}] mu={bad[2]!r} ref={bad[3]} tol={bad[4]} sigma={bad[5]!r} allowed=[{bad[6]}, {bad[7]}] "
                                    f"(prior values {prior})")
                if diag["limit_binding"]:
                    self.labels.append("limit-binding-seen")

        # --- balance (C07), direction (C05) ----------------------------------------------------------
        if "balance" in orc:
            from vf.props.c07 import check_c07
            self._sub(check_c07, case)
        if "direction" in orc:
            from vf.props.c05 import check_a
            self._sub(check_a, case)

        if "sigma" in orc:
            from vf.props.c06 import check_single
            self._sub(check_single, case)
            for a, t in enumerate(teams_idx):
                for b, i in enumerate(t):
                    self.bound_sq[i] += tau * tau
                    if got[a][b][1] > math.sqrt(self.bound_sq[i]) * (1 + 1e-12):
                        raise Violation("history:sigma-above-quadrature-bound",
                                        f"{where}: player {i} sigma={got[a][b][1]!r} > sqrt(sigma0^2 + sum tau^2) = {math.sqrt(self.bound_sq[i])!r}")

        # --- feed back ------------------------------------------------------------------------------
        for a, t in enumerate(teams_idx):
            for b, i in enumerate(t):
                if keep == "returned":
                    self.players[i] = res[a][b]
                else:
                    self.players[i] = inputs[a][b]
                self.games[i] += 1
                if not self._in_domain(self.players[i]):
                    self._reseat(i)
        if keep != "returned":
            self.kept_inputs += 1
        self.last = (teams_idx, res) if keep == "returned" else None
        if self.n_games >= 8 and max(self.games) >= 4:
            self.nontrivial = True
        if self.n_replays:
            self.labels.append("replayed-returned-list")

    def _sub(self, fn, case):
        """Run a single-call oracle on the observed step; its violations are prefixed so that buckets stay apart."""
        try:
            fn(case, self.ctx)
        except Violation as v:
            raise Violation("history:" + v.bucket, f"game {self.n_games}: " + v.detail) from None

    def _predict(self, step):
        teams_idx = step["teams"]
        if any(i in self.retired for t in teams_idx for i in t):
            return
        objs = [[self.players[i] for i in t] for t in teams_idx]
        self.n_predicts += 1
        for name in step["which"]:
            fn = getattr(self.model, "predict_" + name)
            if "total" in self.ORACLES:
                out = guarded(fn, objs, what="predict_" + name)
                flat = [out] if name == "draw" else ([x for pair in out for x in pair] if name == "rank" else list(out))
                for x in flat:
                    if not (isinstance(x, (int, float)) and math.isfinite(x)):
                        raise Violation("history:predict-nonfinite", f"{self.cfg['kind']} predict_{name} on {teams_idx} after {self.n_games} games: {out!r}")
            else:
                try:
                    fn(objs)
                except Exception:  # noqa: BLE001 - totality of the predictions is C08's business, here they are only a history ingredient
                    pass
            self.ctx.called()

    RULES = {}


def _partition(draw, order, n, max_size):
    sizes = []
    left = len(order)
    for k in range(n):
        mx = min(max_size, left - (n - k - 1))
        sizes.append(draw(st.integers(1, max(1, mx))))
        left -= sizes[-1]
    teams, pos = [], 0
    for sz in sizes:
        teams.append(list(order[pos:pos + sz]))
        pos += sz
    return teams


def _call(draw, h, n):
    classes = draw(gen.weak_orders(n))
    frag, _ = draw(gen.encodings(classes, kinds=h.ENC))
    call = dict(frag)
    for k, v in draw(gen.call_options(h.cfg)).items():
        if v is not None:
            call[k] = v
    return call


def _lobby(draw, h, lo, hi):
    act = h.active()  # all seats: a player leaving the domain is replaced at once (_reseat)
    order = list(draw(st.permutations(act)))
    n = draw(st.integers(min(lo, len(order)), min(hi, len(order))))
    return _partition(draw, order, n, h.MAX_SIZE)


def _play_rule(lo, hi):
    def rule(h):
        @st.composite
        def s(draw):
            teams = _lobby(draw, h, lo, hi)
            return {"op": "play", "teams": teams, "call": _call(draw, h, len(teams)), "keep": draw(st.sampled_from(["returned", "returned", "returned", "inputs"]))}

        return s()

    return rule


def _replay_rule(h):
    @st.composite
    def s(draw):
        # the number of teams of the previous game is known to the state, but a shrunk history may change it: carry a call for each n
        ns = [len(h.last[0])] if h.last is not None else [2]
        return {"op": "replay", "call_by_n": {str(n): _call(draw, h, n) for n in ns}, "keep": draw(st.sampled_from(["returned", "returned", "inputs"]))}

    return s()


def _predict_rule(h):
    @st.composite
    def s(draw):
        teams = _lobby(draw, h, 2, 5)
        which = draw(st.lists(st.sampled_from(["win", "draw", "rank"]), min_size=1, max_size=3, unique=True))
        return {"op": "predict", "teams": teams, "which": which}

    return s()


OracleLeague.RULES = {
    "failed_call": lambda h: failing.failing_specs(h.cfg),
    "play_two": _play_rule(2, 2),
    "play_multi": _play_rule(3, 6),
    "play_any": _play_rule(2, 6),
    "replay_returned_list": _replay_rule,
    "predict": _predict_rule,
}


def league_class(name, oracles, pid):
    cls = type(name, (OracleLeague,), {"ORACLES": tuple(oracles), "PID": pid})
    cls.RULES = dict(OracleLeague.RULES)
    return cls


# ------------------------------------------------------------------------------------------------------
# twin leagues: the same history presented in two ways that the property says are equivalent, bit for bit
# ------------------------------------------------------------------------------------------------------
class TwinLeague:
    """Two leagues start from value-equal players and play the same games; side A gets every game in a canonical presentation, side B in
    the presentation the property declares equivalent (another outcome encoding; the option given per call instead of at model level; the
    other Bradley-Terry class).  After every game all (mu, sigma) of both sides must be IDENTICAL (exact comparison, so nothing accumulates
    along the history).  The rating objects of both sides live on through the history (returned objects are fed back)."""
    WHAT = "twin"
    KINDS = None  # restrict model kinds
    MAX_TEAMS = 5
    MAX_SIZE = 3
    ENC = OracleLeague.ENC

    def __init__(self, first, ctx):
        self.cfg = first["cfg"]
        self.ctx = ctx
        self.first = first
        self.models = self.make_models(first)
        self.players = [[m.rating(p[0], p[1], name=f"p{i}") for i, p in enumerate(first["players"])] for m in self.models]
        self.games = [0] * len(first["players"])
        self.n_games = 0
        self.retired = set()
        self.nontrivial = False
        self.labels = ["kind:" + self.cfg["kind"]]
        self.differing_presentations = 0

    # -- to be specialised ---------------------------------------------------------------------------
    def make_models(self, first):
        m, self.trip = failing.tripwire_model(self.cfg)
        return [mk_model(self.cfg), m]

    def side_calls(self, step):
        """-> [(model, call) for side A, (model, call) for side B]"""
        raise NotImplementedError

    @classmethod
    def extra_step(cls, draw, h, n, classes):
        return {}

    @classmethod
    def init_strategy(cls):
        @st.composite
        def init(draw):
            cfg = draw(gen.configs(gammas=HIST_GAMMAS, **({"kinds": cls.KINDS} if cls.KINDS else {})))
            beta = cfg["beta"]
            n = draw(st.integers(4, 10))
            style = draw(st.sampled_from(["spread", "new-players", "settled"]))
            players = []
            for _ in range(n):
                if style == "new-players":
                    players.append([cfg["mu"], cfg["sigma"]])
                elif style == "settled":
                    players.append([draw(st.floats(-3.0, 9.0)) * beta, draw(st.floats(0.02, 0.5)) * beta])
                else:
                    players.append([draw(st.floats(-3.0, 9.0)) * beta, draw(st.one_of(st.just(2.0), st.floats(0.05, 10.0))) * beta])
            return {"op": "init", "cfg": cfg, "players": players, "style": style, **cls.extra_init(draw, cfg)}

        return init()

    @classmethod
    def extra_init(cls, draw, cfg):
        return {}

    def active(self):
        return [i for i in range(len(self.games)) if i not in self.retired]

    def apply(self, step):
        if step["op"] == "fail":
            # side B's long-lived model goes through a call that does not complete normally (throw-away ratings); side A never does
            what = failing.run_failing(self.models[1], step, getattr(self, "trip", None))
            lab = "failed-call:" + step["kind"] + ":" + what.split(":")[0]
            if lab not in self.labels:
                self.labels.append(lab)
            self.ctx.called()
            return
        teams_idx = step["teams"]
        if any(i in self.retired for t in teams_idx for i in t):
            return
        sides = self.side_calls(step)
        out = []
        for s, (model, call) in enumerate(sides):
            objs = [[self.players[s][i] for i in t] for t in teams_idx]
            res = guarded(model.rate, objs, what=f"rate (side {'AB'[s]})", **call_kwargs(call))
            self.ctx.called()
            out.append(res)
        self.n_games += 1
        a, b = vals(out[0]), vals(out[1])
        if a != b:
            bad = next(((i, j) for i in range(len(a)) for j in range(len(a[i])) if a[i][j] != b[i][j]), None) if len(a) == len(b) and all(len(x) == len(y) for x, y in zip(a, b)) else None
            raise Violation(f"history:{self.WHAT}-differs", f"{self.cfg['kind']} game {self.n_games} teams={teams_idx}: side A {sides[0][1]} vs side B {sides[1][1]}: "
                                                            + (f"player {bad}: {a[bad[0]][bad[1]]!r} != {b[bad[0]][bad[1]]!r}" if bad else f"shapes differ: {a!r} vs {b!r}"))
        for s in (0, 1):
            for x, t in enumerate(teams_idx):
                for y, i in enumerate(t):
                    self.players[s][i] = out[s][x][y]
        beta = self.cfg["beta"]
        for t in teams_idx:
            for i in t:
                self.games[i] += 1
                r = self.players[0][i]
                if not (math.isfinite(r.mu) and math.isfinite(r.sigma) and 1e-4 * beta <= r.sigma <= 10 * beta and abs(r.mu) <= 20 * beta):
                    # left the numeric domain: the seat is taken by a new account with the seat's initial values, on both sides
                    mu0, sg0 = self.first["players"][i]
                    for s_ in (0, 1):
                        self.players[s_][i] = self.models[s_].rating(mu0, sg0, name=f"p{i}")
                    if "reseated" not in self.labels:
                        self.labels.append("reseated")
        if sides[0][1] != sides[1][1] or sides[0][0] is not sides[1][0]:
            self.differing_presentations += 1
        if self.n_games >= 6 and max(self.games) >= 3:
            self.nontrivial = True

    RULES = {}


def _twin_play(lo, hi):
    def rule(h):
        @st.composite
        def s(draw):
            act = h.active()  # all seats: a player leaving the domain is replaced at once
            order = list(draw(st.permutations(act)))
            n = draw(st.integers(min(lo, len(order)), min(hi, len(order), h.MAX_TEAMS)))
            teams = _partition(draw, order, n, h.MAX_SIZE)
            classes = draw(gen.weak_orders(n))
            step = {"op": "play", "teams": teams, "classes": classes}
            step.update(type(h).extra_step(draw, h, n, classes))
            return step

        return s()

    return rule


def twin_class(base, name, **attrs):
    cls = type(name, (base,), attrs)
    cls.RULES = {"play_two": _twin_play(2, 2), "play_multi": _twin_play(2, 5), "failed_call_on_side_b": lambda h: failing.failing_specs(h.cfg)}
    return cls
