"""Numerical budget (DESIGN.md 4.4): how far two *mathematically equal* float evaluations of one rate() call
may differ.  Used by the metamorphic clauses (C02, C03 anchor, C04, C05, C07, C16).

All quantities are plain floats computed here from the case (never from the code under test), except the
posterior sigma ratio, which is read from an observed result to condition the square root.
"""
from __future__ import annotations

import math
import sys

from vf.osk import IS_PART, IS_TM

EPS = sys.float_info.epsilon
R = 1e-9
ZV = -8.125890664701906
SQ2 = math.sqrt(2.0)


def Phi(x):
    return 0.5 * math.erfc(-x / SQ2)


def band(x, t):
    xx = abs(x)
    return 0.5 * (math.erfc((xx - t) / SQ2) - math.erfc((xx + t) / SQ2))


def pairs_of(kind, values):
    """-> list of (i, q) ordered pairs the model evaluates (q is an opponent of i)."""
    n = len(values)
    if kind in IS_PART:
        order = sorted(range(n), key=lambda i: values[i])
        out = []
        for k, i in enumerate(order):
            for j in (k - 1, k + 1):
                if 0 <= j < n:
                    out.append((i, order[j]))
        return out
    return [(i, q) for i in range(n) for q in range(n) if q != i]


class Budget:
    def __init__(self, kind, teams, values, beta, kappa, tau, mag_extra=0.0):
        """mag_extra: additional magnitude per team sum that the compared presentation introduces (e.g. k*|shift| in C16)."""
        n = len(teams)
        self.mag_extra = mag_extra
        self.kind = kind
        self.n = n
        self.kappa = kappa
        infl = [[(p[0], math.sqrt(p[1] * p[1] + tau * tau)) for p in t] for t in teams]
        self.infl = infl
        self.tmu = [math.fsum(p[0] for p in t) for t in infl]
        self.tabs = [math.fsum(abs(p[0]) for p in t) + mag_extra for t in infl]
        self.tvar = [math.fsum(p[1] * p[1] for p in t) for t in infl]
        self.S = [0.0] * n  # magnitude of the summands of Omega_i
        self.B_om = [0.0] * n  # rounding sensitivity of the TM tie corrections (Omega)
        self.B_de_rel = [0.0] * n  # same for Delta, *before* multiplying by gamma: sum var_i/c^2 * 4e-13/t
        self.near_boundary = False
        self.max_abs_x = 0.0
        self.tied_pairs = 0
        self.c_of = {}
        if kind == "PL":
            c = math.sqrt(math.fsum(v + beta * beta for v in self.tvar))
            for i in range(n):
                terms = sum(1 for q in range(n) if values[q] <= values[i])
                self.S[i] = self.tvar[i] / c * terms
                # conditioning of exp(mu/c): relative error ~ |mu_i/c| * eps per term (covered by R for |mu/c| < 1e6)
            self.c = c
            return
        f = 2.0 if kind == "TMP" else 1.0
        for i, q in pairs_of(kind, values):
            c = f * math.sqrt(self.tvar[i] + self.tvar[q] + 2 * beta * beta)
            self.c_of[(i, q)] = c
            x = (self.tmu[i] - self.tmu[q]) / c
            # rounding of the team sums moves x by ~eps * sum|mu| / c; the corrections have slope <= max(1, |x|)
            self.max_abs_x = max(self.max_abs_x, abs(x))
            self.S[i] += self.tvar[i] / c * max(1.0, abs(x))
            if kind in IS_TM:
                t = kappa / c
                if values[i] == values[q]:
                    self.tied_pairs += 1
                    self.B_om[i] += self.tvar[i] / c * (4e-15 / t)
                    self.B_de_rel[i] += self.tvar[i] / (c * c) * (4e-13 / t)
                    b = band(x, t)
                    # vt's small-band branch returns -x +- t: a jump of 2t at x = 0 (both values are within C17's 2t of the exact
                    # V~(0) = 0).  Two presentations whose team sums differ by an ulp can land on either side: allow the jump
                    # (this is the "draw-margin term, of order kappa" that C05 / C07 name) when x is zero up to rounding.
                    if b < 1e-5 * (1 + 1e-3) and abs(x) * c <= 1e-9 * (self.tabs[i] + self.tabs[q]) + 1e-300:
                        self.B_om[i] += self.tvar[i] / c * (2.0 * t)
                        self.sign_jump_pairs = getattr(self, "sign_jump_pairs", 0) + 1
                    for lv in (EPS, 1e-5):
                        if b > 0 and abs(b / lv - 1.0) < 1e-3:
                            self.near_boundary = True
                else:
                    xw = x if values[i] < values[q] else -x
                    d = Phi(xw - t)
                    if abs(d / EPS - 1.0) < 1e-3:
                        self.near_boundary = True

    def share(self, i, j):
        s = self.infl[i][j][1]
        return s * s / self.tvar[i]

    def tol_mu(self, i, j, extra_mag=0.0):
        sh = self.share(i, j)
        return R * (abs(self.infl[i][j][0]) + extra_mag + sh * self.S[i]) + sh * self.B_om[i]

    def tol_sigma(self, i, j, sigma_post, gamma_bound=1.0):
        """sigma_post: an observed posterior sigma of this player (conditions the square root)."""
        s = self.infl[i][j][1]
        sh = self.share(i, j)
        root = max(sigma_post / s, math.sqrt(self.kappa)) if s > 0 else 1.0
        # d(s * sqrt(rad)) = s * d(rad) / (2 sqrt(rad));  d(rad) = share * gamma * B_de_rel (+ float slack on 1 - share*delta)
        drad = sh * gamma_bound * self.B_de_rel[i] + 64 * EPS * (1.0 + 1.0)
        return R * sigma_post + s * drad / (2.0 * root)


def gamma_bound(cfg, teams):
    """An upper bound of |gamma| for the closed callback family (default: sqrt(var)/c <= 1)."""
    g = cfg.get("gamma", "default")
    return {"reentrant": 1.0, "mu_dep": 1.0, "team_sigma": 1.0, "default": 1.0, "zero": 0.0, "one": 1.0, "fifty": 50.0, "inv_k": 1.0, "half_default": 0.5, "inv_rank": 1.0, "inv_size": 1.0}[g]


def compare_equal(bud: Budget, a, b, cfg, teams, what, mag_extra=0.0):
    """a, b: [[(mu, sigma)]] that should be mathematically equal.  Returns (worst ratio, first offender or None)."""
    gb = gamma_bound(cfg, teams)
    worst = 0.0
    bad = None
    for i, (ta, tb) in enumerate(zip(a, b)):
        for j, (pa, pb) in enumerate(zip(ta, tb)):
            tm = bud.tol_mu(i, j, mag_extra)
            ts = bud.tol_sigma(i, j, max(pa[1], pb[1]), gb)
            rm = abs(pa[0] - pb[0]) / tm if tm > 0 else (0.0 if pa[0] == pb[0] else math.inf)
            rs = abs(pa[1] - pb[1]) / ts if ts > 0 else (0.0 if pa[1] == pb[1] else math.inf)
            r = max(rm, rs)
            if r > worst:
                worst = r
            if r > 1.0 and bad is None:
                bad = f"{what}: player {i},{j}: {pa!r} vs {pb!r} (mu diff {abs(pa[0]-pb[0]):.3e} tol {tm:.3e}; sigma diff {abs(pa[1]-pb[1]):.3e} tol {ts:.3e})"
    return worst, bad
