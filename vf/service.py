"""Property-specific judges for the long-running service (vf/servicechild.py): ONE fresh child interpreter, ONE long-lived model, the
recurring calls first, 9 000 / 70 000 filler calls with ever new line-ups, the recurring calls again at the end.  C14 judges "same
numbers as at the start"; the clauses built here judge what the recurring calls return AT THE END by the property's own oracle, so that
a table that goes wrong after thousands of line-ups is also decided by the property it breaks."""
from __future__ import annotations

from hypothesis import HealthCheck, given, settings
from hypothesis import seed as hseed
from hypothesis import strategies as st

from vf import gen
from vf.core import Violation


def make_clause_functions(recurring, judge, kinds=None):
    """recurring(data, cfg) -> list of jobs; judge(spec, out, ctx) raises Violation.  Returns (custom, check) for a Clause."""

    def check(spec, ctx, tag="replay"):
        from vf.props.c14 import run_service

        out = run_service(dict(spec, stop_at_first_mismatch=False), "svc-" + tag, judge=False)
        ctx.called(out["fillers"] + 2 * len(spec["recurring"]))
        try:
            judge(spec, out, ctx)
        except Violation as v:
            v.case = spec
            raise
        ctx.nontrivial_if(out["fillers"] >= 4200)

    def custom(ctx, seed, tier, shard, nshards, n):
        from vf.props.c14 import SERVICE_CHECKPOINTS

        specs = []
        K = 9000 if tier == "quick" else 70000

        @hseed(seed)
        @settings(max_examples=n + 1, database=None, deadline=None, suppress_health_check=list(HealthCheck))
        @given(st.data())
        def collect(data):
            cfg = data.draw(gen.configs(**({"kinds": kinds} if kinds else {})))
            specs.append({"cfg": cfg, "recurring": recurring(data, cfg), "prng": data.draw(st.integers(0, 2 ** 32 - 1)), "K": K,
                          "checkpoints": [c for c in SERVICE_CHECKPOINTS if c <= K]})

        collect()
        specs = specs[:n] if shard == 0 else specs[1:n + 1]
        for k, spec in enumerate(specs):
            ctx.begin(spec)
            check(spec, ctx, f"{shard}-{k}")
            ctx.label("kind:" + spec["cfg"]["kind"])
            ctx.end()

    return custom, check


def lineups(data, cfg, k=6):
    """k generated line-ups + newcomers on default ratings (what a service sees again and again)"""
    from vf.predgen import pred_cases

    d = [cfg["mu"], cfg["sigma"]]
    out = [[[list(d)], [list(d)]], [[list(d)], [list(d)], [list(d)]], [[list(d), list(d)], [list(d), list(d)]]]
    beta = cfg["beta"]
    for _ in range(k):
        n = data.draw(st.integers(2, 5))
        out.append([[[data.draw(st.floats(-3.0, 9.0)) * beta, 10.0 ** data.draw(st.floats(-1.5, 0.5)) * beta] for _ in range(data.draw(st.integers(1, 3)))] for _ in range(n)])
    return out


def raised(x):
    return isinstance(x, dict) and "raised" in x
