"""Child interpreter of the C14 hash-seed / call-order clause: runs serialised calls in the requested order, prints results as JSON
(indexed by the position of the call in the file, whatever the execution order was)."""
import json
import sys

from vf.osk import mk_model
from vf.props.c14 import run_job


def main():
    cases = json.load(open(sys.argv[1]))
    order = sys.argv[2] if len(sys.argv) > 2 else "forward"
    n = len(cases)
    idx = list(range(n))
    if order == "reverse":
        idx.reverse()
    elif order == "rotated":
        idx = idx[n // 2:] + idx[:n // 2]
    elif order == "evens-first":
        idx = idx[0::2] + idx[1::2]
    reps = int(sys.argv[3]) if len(sys.argv) > 3 else 1
    out = [None] * n
    for k in idx:
        c = cases[k]
        for _ in range(reps):
            try:
                out[k] = run_job(mk_model(c["cfg"]), c["job"])
            except Exception as e:  # noqa: BLE001
                out[k] = {"raised": type(e).__name__}
    json.dump(out, sys.stdout)


if __name__ == "__main__":
    main()
