"""Child interpreter of the C14 hash-seed clause: runs serialised calls, prints their results as JSON."""
import json
import sys

from vf.osk import mk_model
from vf.props.c14 import run_job


def main():
    cases = json.load(open(sys.argv[1]))
    out = []
    for c in cases:
        try:
            out.append(run_job(mk_model(c["cfg"]), c["job"]))
        except Exception as e:  # noqa: BLE001
            out.append({"raised": type(e).__name__})
    json.dump(out, sys.stdout)


if __name__ == "__main__":
    main()
