"""Generated inputs for the prediction properties (C09-C12, C16, C19)."""
from __future__ import annotations

from hypothesis import strategies as st

from vf import gen


@st.composite
def pred_cases(draw, max_teams=8, max_size=8, regimes=("generic", "generic", "corner", "team_corner", "equal_sums", "near_equal", "identical", "targeted", "dyadic", "int_typed"), kinds=None):
    cfg = draw(gen.configs(**({"kinds": kinds} if kinds else {})))
    sizes = draw(gen.shapes(max_teams=max_teams, max_size=max_size))
    teams, regime, info = draw(gen.team_values(cfg, sizes, tau_eff=0.0, regimes=list(regimes)))
    case = {"cfg": cfg, "teams": teams, "meta": {"regime": regime, **info}}
    if draw(st.integers(0, 7)) == 0:
        # the model has been through one call that did not complete normally before the predictions (osk.model_for)
        from vf import failing

        case["prelude"] = draw(failing.failing_specs(cfg))
    return case


def pred_labels(case):
    t = case["teams"]
    return [f"n:{len(t)}", f"N:{min(sum(len(x) for x in t) // 8 * 8, 64)}+", "regime:" + case["meta"]["regime"], "kind:" + case["cfg"]["kind"],
            "scale:" + ("1" if case["cfg"]["scale"] == 1.0 else "other")]
