"""Glue between Hypothesis rule-based state machines and replayable JSON histories.

A *history class* H provides
    H.init_strategy()            -> strategy of the first step (JSON dict)
    H.RULES = {name: fn(h)}      -> fn(h) returns a strategy of the next step given the current state h
    H(first_step, ctx)           -> state after the first step
    h.apply(step)                -> executes one step against the code under test, checks the invariants, raises Violation
    h.nontrivial, h.labels       -> read at teardown
machine_factory(H) returns the factory the runner expects; replayer(H) returns the plain replay function
(no Hypothesis involved) used for --replay and for committed regression files.
"""
from __future__ import annotations

from hypothesis import strategies as st
from hypothesis.stateful import RuleBasedStateMachine, initialize, rule

from vf.core import Violation


def machine_factory(H):
    def factory(ctx, on_fail):
        class Machine(RuleBasedStateMachine):
            def __init__(self):
                super().__init__()
                self.h = None
                self.steps = []
                self.dead = False

            @initialize(data=st.data())
            def init(self, data):
                on_fail(None, None)  # lets the runner end a shrink that has used its time budget
                step = data.draw(H.init_strategy())
                self.steps.append(step)
                ctx.begin(self.steps)
                self.h = H(step, ctx)

            def _do(self, step):
                if self.dead or self.h is None:
                    return
                self.steps.append(step)
                try:
                    self.h.apply(step)
                except Violation as v:
                    hist = [dict(s) for s in self.steps]
                    if ctx.route(v, hist):
                        self.dead = True
                        return
                    if not on_fail(hist, v):
                        self.dead = True
                        return
                    raise

            def teardown(self):
                if self.h is None:
                    return
                ctx.begin(self.steps)
                ctx.nontrivial_if(bool(self.h.nontrivial))
                for lab in self.h.labels:
                    ctx.label(lab)
                ctx.label(f"steps:{min(len(self.steps) // 10 * 10, 1000)}+")
                ctx.end()

        def mk(name, fn):
            def r(self, data):
                if self.h is None or self.dead:
                    return
                self._do(data.draw(fn(self.h)))

            r.__name__ = name
            return rule(data=st.data())(r)

        for name, fn in H.RULES.items():
            setattr(Machine, name, mk(name, fn))
        Machine.__name__ = H.__name__ + "Machine"
        return Machine

    return factory


def replayer(H):
    def replay(history, ctx):
        h = H(history[0], ctx)
        for step in history[1:]:
            h.apply(step)
        ctx.nontrivial_if(bool(h.nontrivial))
        for lab in h.labels:
            ctx.label(lab)

    return replay
