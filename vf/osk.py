"""Thin adapter between JSON cases and the code under test (openskill from the tree being checked)."""
from __future__ import annotations

import math
from typing import Any, Dict, List

from vf.core import Violation

KINDS = ["PL", "BTF", "BTP", "TMF", "TMP"]
FULL = {"PL": None, "BTF": True, "TMF": True, "BTP": False, "TMP": False}
IS_TM = {"TMF", "TMP"}
IS_PART = {"BTP", "TMP"}


def classes() -> Dict[str, Any]:
    import openskill.models as om

    return {
        "PL": om.PlackettLuce,
        "BTF": om.BradleyTerryFull,
        "BTP": om.BradleyTerryPart,
        "TMF": om.ThurstoneMostellerFull,
        "TMP": om.ThurstoneMostellerPart,
    }


def rating_classes() -> Dict[str, Any]:
    import openskill.models as om

    return {
        "PL": om.PlackettLuceRating,
        "BTF": om.BradleyTerryFullRating,
        "BTP": om.BradleyTerryPartRating,
        "TMF": om.ThurstoneMostellerFullRating,
        "TMP": om.ThurstoneMostellerPartRating,
    }


# --- the closed family of pure gamma callbacks ------------------------------------------------
def _g_zero(c, k, mu, sigma_squared, team, rank):
    return 0.0


def _g_one(c, k, mu, sigma_squared, team, rank):
    return 1.0


def _g_fifty(c, k, mu, sigma_squared, team, rank):
    return 50.0


def _g_inv_k(c, k, mu, sigma_squared, team, rank):
    return 1.0 / k


def _g_half(c, k, mu, sigma_squared, team, rank):
    return 0.5 * math.sqrt(sigma_squared) / c


def _g_inv_rank(c, k, mu, sigma_squared, team, rank):
    return 1.0 / (1 + rank)


def _g_inv_size(c, k, mu, sigma_squared, team, rank):
    return 1.0 / len(team)


def _g_mu_dep(c, k, mu, sigma_squared, team, rank):
    return 1.0 / (1.0 + abs(mu) / c)


def _g_team_sigma(c, k, mu, sigma_squared, team, rank):
    # uses the members of the team object the model passes (their tau-inflated sigmas)
    return max(p.sigma for p in team) / c


def _g_reentrant(c, k, mu, sigma_squared, team, rank):
    """The default gamma value - computed after the callback has itself rated an unrelated three-team game and asked for a prediction
    through a NEW model of the same class (same thread, while the outer rate() is in progress).  A pure callback as far as the outer call
    is concerned: scratch state that the library keeps per thread or per module for 'the game being rated' must survive it."""
    import sys

    rcls = type(team[0])
    mcls = getattr(sys.modules[rcls.__module__], rcls.__name__[: -len("Rating")])
    inner = mcls()
    lobby = [[inner.rating(30.0, 4.0)], [inner.rating(20.0, 5.0), inner.rating(22.0, 1.0)], [inner.rating(25.0, 3.0)]]
    inner.predict_draw(lobby)
    inner.rate(lobby, ranks=[1, 0, 1])
    return math.sqrt(sigma_squared) / c


GAMMAS = {
    "reentrant": _g_reentrant,
    "mu_dep": _g_mu_dep,
    "team_sigma": _g_team_sigma,
    "zero": _g_zero,
    "one": _g_one,
    "fifty": _g_fifty,
    "inv_k": _g_inv_k,
    "half_default": _g_half,
    "inv_rank": _g_inv_rank,
    "inv_size": _g_inv_size,
}
GAMMA_NAMES = ["default"] + list(GAMMAS)


def mk_model(cfg: Dict[str, Any], **override):
    """cfg keys: kind, and optionally mu, sigma, beta, kappa, tau, limit_sigma, gamma (name)."""
    cls = classes()[cfg["kind"]]
    kw = {}
    for k in ("mu", "sigma", "beta", "kappa", "tau", "limit_sigma"):
        if k in cfg and cfg[k] is not None:
            kw[k] = cfg[k]
    g = cfg.get("gamma", "default")
    if g != "default":
        kw["gamma"] = GAMMAS[g]
    kw.update(override)
    return cls(**kw)


def mk_teams(model, teams: List[List[List[float]]], names=False, clone_ids=None):
    """clone_ids: None (every rating is created by model.rating: fresh unique ids) | 'all' | 'alternate': the ratings are copy.deepcopy
    clones of ONE template rating with mu and sigma assigned afterwards - what seeding accounts from a template, or rating a player against
    an earlier snapshot of herself, produces: distinct objects, different values, the SAME id (deepcopy keeps it)."""
    import copy

    out = []
    template = model.rating() if clone_ids else None
    k = 0
    for i, t in enumerate(teams):
        row = []
        for j, p in enumerate(t):
            k += 1
            if clone_ids == "all" or (clone_ids == "alternate" and k % 2 == 0):
                r = copy.deepcopy(template)
                r.mu, r.sigma = p[0], p[1]
                if names:
                    r.name = f"p{i}.{j}"
                row.append(r)
            elif names:
                row.append(model.rating(p[0], p[1], name=f"p{i}.{j}"))
            else:
                row.append(model.rating(p[0], p[1]))
        out.append(row)
    return out


class _IntSub(int):
    """an int in every respect (isinstance, arithmetic, ordering, hashing) - e.g. what enum.IntEnum members or numpy-free domain types are"""


class _FloatSub(float):
    pass


def _wrap_number(v, how):
    if isinstance(v, bool):
        return v
    if how == "int-subclass" and isinstance(v, int):
        return _IntSub(v)
    if how == "float-subclass" and isinstance(v, float):
        return _FloatSub(v)
    if how == "both":
        return _IntSub(v) if isinstance(v, int) else _FloatSub(v) if isinstance(v, float) else v
    return v


def call_kwargs(call: Dict[str, Any]) -> Dict[str, Any]:
    """call keys (all optional): ranks, scores, tau, limit_sigma  (absent or None == omitted);
    'number_types' (None | 'int-subclass' | 'float-subclass' | 'both'): rank / score values are passed as instances of subclasses of int / float."""
    kw = {}
    how = call.get("number_types")
    for k in ("ranks", "scores", "tau", "limit_sigma"):
        if call.get(k) is not None:
            v = call[k]
            kw[k] = [(_wrap_number(x, how) if how else x) for x in v] if isinstance(v, list) else v
    return kw


def guarded(fn, *a, what="call", **kw):
    """Call the code under test where the property says it must return normally."""
    try:
        return fn(*a, **kw)
    except Exception as e:  # noqa: BLE001 - any exception on a valid call is the finding
        raise Violation(f"raised:{type(e).__name__}", f"{what} raised {type(e).__name__}: {e}") from None


def rate(model, objs, call, ctx=None):
    if ctx is not None:
        ctx.called()
    kw = call_kwargs(call)
    if call.get("positional"):
        # the documented parameter order rate(teams, ranks, scores, tau, limit_sigma): the leading arguments passed positionally
        # (as many as call["positional"] says, at most up to the last one that is given), the rest by keyword
        order = ["ranks", "scores", "tau", "limit_sigma"]
        last = max([i for i, k in enumerate(order) if k in kw], default=-1)
        npos = min(int(call["positional"]), last + 1)
        pos = [kw.pop(k, None) for k in order[:npos]]
        return guarded(model.rate, objs, *pos, what="rate", **kw)
    return guarded(model.rate, objs, what="rate", **kw)


def vals(res) -> List[List[tuple]]:
    return [[(p.mu, p.sigma) for p in t] for t in res]


def model_for(cfg, call, teams=None):
    """A freshly constructed model - which, when the case carries a 'prelude', has first been through ONE call that did not complete
    normally (vf/failing.py): the properties quantify over models as constructed, whatever was called on them before."""
    pre = call.get("prelude") if call else None
    if not pre:
        return mk_model(cfg)
    from vf import failing

    m, trip = failing.tripwire_model(cfg)
    if pre.get("kind") == "mirror":
        if teams is not None:
            failing.run_mirror(m, cfg, teams, {k: v for k, v in call.items() if k != "prelude"}, pre)
    else:
        failing.run_failing(m, pre, trip)
    return m


def rate_values(cfg, teams, call, ctx=None):
    """Fresh model + fresh ratings -> list of list of (mu, sigma)."""
    m = model_for(cfg, call, teams)
    objs = mk_teams(m, teams, clone_ids=call.get("clone_ids"))
    return vals(rate(m, objs, call, ctx))


def observed_or_rate(case, ctx=None):
    """The result a single-call oracle judges: normally a fresh model + fresh ratings; a league history (vf/league.py) passes the
    result it observed on its own long-lived objects under '_observed' so that the same oracle is applied to that step."""
    if "_observed" in case:
        return case["_observed"]
    return rate_values(case["cfg"], case["teams"], case["call"], ctx)


def eff_tau(cfg, call) -> float:
    t = call.get("tau")
    if t is None:
        return float(cfg.get("tau", 25.0 / 300.0) if cfg.get("tau") is not None else 25.0 / 300.0)
    return float(t)


def eff_limit(cfg, call) -> bool:
    b = call.get("limit_sigma")
    if b is None:
        return bool(cfg.get("limit_sigma", False))
    return bool(b)


def outcome_values(n: int, call: Dict[str, Any]) -> List[Any]:
    """The rank-like values (lower is better) a call induces: ranks, or negated scores, or positions."""
    if call.get("ranks") is not None:
        return list(call["ranks"])
    if call.get("scores") is not None:
        return [-s for s in call["scores"]]
    return list(range(n))
