"""Child interpreter of the optimised-interpreter clauses: runs the plain check function of a named 'given' clause on serialised cases under
`python -O` / `-OO` (assert statements and `if __debug__:` blocks compiled away).  Prints {"violations": [...], "calls": n, "optimize": level}."""
import importlib
import json
import sys

from vf.core import Ctx, Violation


def main():
    pid, cname, path = sys.argv[1], sys.argv[2], sys.argv[3]
    prop = importlib.import_module("vf.props." + pid.lower()).PROPERTY
    clause = next(c for c in prop.clauses if c.name == cname)
    strat_cases = json.load(open(path))
    out = []
    calls = 0
    for k, case in enumerate(strat_cases):
        ctx = Ctx(pid, cname)
        ctx.begin(case)
        try:
            clause.check(case, ctx)
        except Violation as v:
            if v.bucket not in ("tmp-ciq-doubled",):
                out.append({"index": k, "bucket": v.bucket, "detail": v.detail})
        calls += ctx.calls
    json.dump({"violations": out, "calls": calls, "optimize": sys.flags.optimize}, sys.stdout)


if __name__ == "__main__":
    main()
