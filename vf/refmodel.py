"""Independent reference for rate(): Weng & Lin (JMLR 2011) Algorithms 1-4 + the documented extensions,
in mpmath (50 digits).  Shares no code with the repository.  DESIGN.md 4.1 / 4.4.

reference(kind, teams, values, beta, kappa, tau, gamma, limit_sigma, tmp_factor) returns for every player
an *interval*: (mu_ref, tol_mu, sigma_lo, sigma_hi).  For PL / BT the interval is the pure floating-point
budget (R = 1e-9 relative to the magnitudes that enter the update); for the Thurstone-Mosteller models it
additionally carries, per pair, the error C17 allows the implementation's V, W, V~, W~.
"""
from __future__ import annotations

import sys

import mpmath as mp

from vf import gauss
from vf.gauss import EPS, M

R = M("1e-9")
FEPS = M(sys.float_info.epsilon)


def gamma_value(name, c, k, mu, sigma_sq, team_size, rank, max_member_sigma=None):
    if name == "mu_dep":
        return 1 / (1 + abs(mu) / c)
    if name == "team_sigma":
        return max_member_sigma / c
    if name in ("default", "reentrant"):
        return mp.sqrt(sigma_sq) / c
    if name == "zero":
        return M(0)
    if name == "one":
        return M(1)
    if name == "fifty":
        return M(50)
    if name == "inv_k":
        return M(1) / k
    if name == "half_default":
        return mp.sqrt(sigma_sq) / c / 2
    if name == "inv_rank":
        return M(1) / (1 + rank)
    if name == "inv_size":
        return M(1) / team_size
    raise KeyError(name)


def _vw_with_allowance(x, t):
    """exact V, W at (x, t) and the error the implementation is allowed (C17)."""
    d = gauss.Phi(x - t)
    v = gauss.V(x, t)
    w = gauss.W(x, t)
    if d >= EPS * (1 + M("1e-6")):
        return v, M("1e-6") * v, w, M("1e-6") * w, "reg"
    return v, M("0.02") * v, w, M("0.02") * w, ("asym" if d < EPS * (1 - M("1e-6")) else "asym-edge")


def reference(kind, teams, values, beta, kappa, tau, gamma="default", limit_sigma=False, tmp_factor=1, exact_only=False):
    """teams: [[ (mu, sigma) floats ]]; values: rank-like outcome values, lower is better (any numbers).

    Returns (out, diag): out[i][j] = (mu_ref, tol_mu, sig_lo, sig_hi, sig_ref); diag = dict of labels/diagnostics.
    """
    beta = M(beta)
    kappa = M(kappa)
    tau = M(tau)
    n = len(teams)
    infl = [[(M(mu), mp.sqrt(M(s) ** 2 + tau ** 2)) for mu, s in t] for t in teams]
    tmu = [mp.fsum(p[0] for p in t) for t in infl]
    tvar = [mp.fsum(p[1] ** 2 for p in t) for t in infl]
    # outcome: competition rank = number of strictly better teams; ladder order = stable sort by value
    rk = [sum(1 for q in range(n) if values[q] < values[i]) for i in range(n)]
    order = sorted(range(n), key=lambda i: values[i])
    pos = {t: k for k, t in enumerate(order)}
    omega = [M(0)] * n
    delta = [M(0)] * n
    e_om = [M(0)] * n
    e_de = [M(0)] * n
    S = [M(0)] * n
    diag = {"branches": set(), "max_abs_x": 0.0, "t_min": None, "t_max": None, "pairs": 0}

    def gam(c, i):
        return gamma_value(gamma, c, n, tmu[i], tvar[i], len(teams[i]), rk[i], max(p[1] for p in infl[i]))

    if kind == "PL":
        c = mp.sqrt(mp.fsum(v + beta ** 2 for v in tvar))
        e = [mp.exp(m / c) for m in tmu]
        sumq = [mp.fsum(e[s] for s in range(n) if rk[s] >= rk[q]) for q in range(n)]
        A = [sum(1 for s in range(n) if rk[s] == rk[q]) for q in range(n)]
        for i in range(n):
            om = M(0)
            de = M(0)
            terms = 0
            for q in range(n):
                if rk[q] <= rk[i]:
                    p = e[i] / sumq[q]
                    de += p * (1 - p) / A[q]
                    om += ((1 - p) if q == i else -p) / A[q]
                    terms += 1
            omega[i] = om * tvar[i] / c
            delta[i] = de * tvar[i] / c ** 2 * gam(c, i)
            S[i] = tvar[i] / c * terms
            diag["pairs"] += terms
    else:
        full = kind in ("BTF", "TMF")
        for i in range(n):
            if full:
                opp = [q for q in range(n) if q != i]
            else:
                k = pos[i]
                opp = [order[j] for j in (k - 1, k + 1) if 0 <= j < n]
            om = M(0)
            de = M(0)
            for q in opp:
                ciq = mp.sqrt(tvar[i] + tvar[q] + 2 * beta ** 2)
                if kind == "TMP":
                    ciq = tmp_factor * ciq
                g = gam(ciq, i)
                x = (tmu[i] - tmu[q]) / ciq
                diag["max_abs_x"] = max(diag["max_abs_x"], float(abs(x)))
                diag["pairs"] += 1
                S[i] += tvar[i] / ciq * max(1, abs(x))
                if kind in ("BTF", "BTP"):
                    p = 1 / (1 + mp.exp((tmu[q] - tmu[i]) / ciq))
                    s = 1 if rk[q] > rk[i] else (M(1) / 2 if rk[q] == rk[i] else 0)
                    om += tvar[i] / ciq * (s - p)
                    de += g * tvar[i] / ciq ** 2 * p * (1 - p)
                else:
                    t = kappa / ciq
                    tf = float(t)
                    diag["t_min"] = tf if diag["t_min"] is None else min(diag["t_min"], tf)
                    diag["t_max"] = tf if diag["t_max"] is None else max(diag["t_max"], tf)
                    if rk[q] > rk[i]:
                        v, ev, w, ew, lab = _vw_with_allowance(x, t)
                        sgn = 1
                    elif rk[q] < rk[i]:
                        v, ev, w, ew, lab = _vw_with_allowance(-x, t)
                        sgn = -1
                    else:
                        v = gauss.Vt(x, t)
                        ev = 2 * t
                        w = gauss.Wt(x, t)
                        ew = 20 * t + M("1e-13") / t
                        sgn = 1
                        lab = "tie"
                    diag["branches"].add(lab)
                    om += sgn * tvar[i] / ciq * v
                    e_om[i] += tvar[i] / ciq * ev
                    de += g * tvar[i] / ciq ** 2 * w
                    e_de[i] += abs(g) * tvar[i] / ciq ** 2 * ew
            omega[i] = om
            delta[i] = de
    out = []
    floor_binding = False
    limit_binding = False
    for i, team in enumerate(infl):
        row = []
        for j, (mu, s) in enumerate(team):
            share = s ** 2 / tvar[i]
            mu_ref = mu + share * omega[i]
            tol_mu = share * e_om[i] + R * (abs(mu) + share * S[i])
            rad = 1 - share * delta[i]
            slack = 64 * FEPS * (1 + abs(share * delta[i]))
            rad_lo = rad - share * e_de[i] - slack
            rad_hi = rad + share * e_de[i] + slack
            if rad < kappa:
                floor_binding = True
            sig_ref = s * mp.sqrt(max(rad, kappa))
            lo = s * mp.sqrt(max(rad_lo, kappa)) * (1 - R)
            hi = s * mp.sqrt(max(rad_hi, kappa)) * (1 + R)
            if limit_sigma:
                prior = M(teams[i][j][1])
                if sig_ref > prior:
                    limit_binding = True
                sig_ref = min(sig_ref, prior)
                lo = min(lo, prior)
                hi = min(hi, prior)
            row.append((mu_ref, tol_mu, lo, hi, sig_ref))
        out.append(row)
    diag["kappa_floor"] = floor_binding
    diag["limit_binding"] = limit_binding
    diag["omega"] = omega
    diag["delta"] = delta
    diag["tvar"] = tvar
    diag["tmu"] = tmu
    diag["S"] = S
    return out, diag


def compare(res_vals, ref_out):
    """-> (ok, worst_mu_ratio, worst_sigma_ratio, first_bad) where ratio = |error| / allowance."""
    worst_mu = M(0)
    worst_sig = M(0)
    bad = None
    for i, team in enumerate(ref_out):
        for j, (mu_ref, tol_mu, lo, hi, sig_ref) in enumerate(team):
            mu, sg = res_vals[i][j]
            rm = abs(M(mu) - mu_ref) / tol_mu if tol_mu > 0 else (M(0) if M(mu) == mu_ref else mp.inf)
            sgm = M(sg)
            if sgm < lo:
                rs = 1 + (lo - sgm) / max(lo, M("1e-300"))
            elif sgm > hi:
                rs = 1 + (sgm - hi) / max(hi, M("1e-300"))
            else:
                half = (hi - lo) / 2
                rs = abs(sgm - (hi + lo) / 2) / half if half > 0 else M(0)
            worst_mu = max(worst_mu, rm)
            worst_sig = max(worst_sig, rs)
            if (rm > 1 or sgm < lo or sgm > hi) and bad is None:
                bad = (i, j, mu, mp.nstr(mu_ref, 20), mp.nstr(tol_mu, 5), sg, mp.nstr(lo, 20), mp.nstr(hi, 20))
    return bad is None, float(worst_mu), float(worst_sig), bad
