"""Hypothesis strategies shared by the checks (DESIGN.md section 3).

Everything a strategy returns is plain JSON (dict / list / str / int / float / bool / None); Python's
json round-trips finite floats bit-exactly, and keeps int / float / bool apart, so a saved case
replays exactly.
"""
from __future__ import annotations

import math

from hypothesis import strategies as st

from vf.osk import GAMMA_NAMES, IS_TM, KINDS

B0 = 25.0 / 6.0  # default beta


def logu(lo, hi):
    return st.floats(math.log10(lo), math.log10(hi)).map(lambda u: 10.0 ** u)


# ------------------------------------------------------------------------------------------------
# configuration
# ------------------------------------------------------------------------------------------------
SCALES = [1.0, 1.0, 1.0, 1e-3, 1e-2, 1e-1, 10.0, 100.0, 1e3]


@st.composite
def configs(draw, kinds=KINDS, kappa_lo=1e-6, tm_relative_kappa=True, gammas=GAMMA_NAMES, limit=(False, True), scales=True,
            default_bias=True):
    kind = draw(st.sampled_from(list(kinds)))
    if scales:
        scale = draw(st.one_of(st.sampled_from(SCALES), logu(1e-3, 1e3)))
    else:
        scale = 1.0
    beta = B0 * scale
    if kind in IS_TM and tm_relative_kappa:
        # kappa is the (dimensional) draw margin of the TM models: keep t = kappa / c_iq inside the
        # range for which C17 states the corrections' error.
        # ... and inside (0, 1e-2], the range the properties quantify over (it is also the dimensionless variance floor).
        lo, hi = 1e-6 * beta, min(1.4e-2 * beta, 1e-2)
        kappa = draw(st.one_of(st.just(min(hi, max(lo, 1e-4))), logu(lo, hi).map(lambda k: min(hi, max(lo, k)))))
    else:
        kappa = draw(st.one_of(st.just(1e-4), logu(kappa_lo, 1e-2)))
    tau = draw(st.one_of(
        st.just(beta / 50.0), st.just(0.0), st.just(1e-6 * beta), st.floats(0.0, 2.0).map(lambda u: u * beta)))
    cfg = {
        "kind": kind,
        "scale": scale,
        "mu": 25.0 * scale,
        "sigma": 25.0 / 3.0 * scale,
        "beta": beta,
        "kappa": kappa,
        "tau": tau,
        "limit_sigma": draw(st.sampled_from(list(limit))),
        "gamma": draw(st.sampled_from(list(gammas))) if len(gammas) > 1 else gammas[0],
    }
    return cfg


def default_config(kind):
    return {"kind": kind, "scale": 1.0, "mu": 25.0, "sigma": 25.0 / 3.0, "beta": B0, "kappa": 1e-4, "tau": 25.0 / 300.0,
            "limit_sigma": False, "gamma": "default"}


@st.composite
def call_options(draw, cfg, tau=True, limit=True):
    """Per-call tau / limit_sigma (None == omitted)."""
    beta = cfg["beta"]
    out = {}
    if tau:
        out["tau"] = draw(st.one_of(
            st.none(), st.none(), st.just(0.0), st.just(beta / 50.0), st.floats(0.0, 2.0).map(lambda u: u * beta),
            st.sampled_from([0, 1, 2] if beta >= 0.5 else [0])))  # ... and Python ints, as in rate(teams, tau=1)
    if limit:
        out["limit_sigma"] = draw(st.sampled_from([None, None, True, False]))
    return out


# ------------------------------------------------------------------------------------------------
# shapes and values
# ------------------------------------------------------------------------------------------------
@st.composite
def shapes(draw, min_teams=2, max_teams=8, max_size=8):
    kind = draw(st.integers(0, 10))
    if kind == 0:
        n = max_teams
        return [max_size] * n
    if kind == 10:
        # "round" totals and lopsided big teams: 64 = 8x8 = 4x16, 32, 128, 13 v 13, 16 v 10 ...
        pool = [[8] * 8, [16] * 4, [16] * 2, [8] * 4, [4] * 8, [16] * 8, [13, 13], [16, 10], [16, 16, 1], [1, 16], [2] * 8, [5, 5, 5, 5]]
        pool = [sh for sh in pool if len(sh) >= min_teams and len(sh) <= max_teams and max(sh) <= max_size]
        if pool:
            return list(draw(st.sampled_from(pool)))
    if kind <= 5:  # small
        n = draw(st.integers(min_teams, min(4, max_teams)))
        return draw(st.lists(st.integers(1, min(3, max_size)), min_size=n, max_size=n))
    n = draw(st.integers(min_teams, max_teams))
    return draw(st.lists(st.integers(1, max_size), min_size=n, max_size=n))


def _mu(beta):
    return st.one_of(
        st.floats(-20.0, 20.0).map(lambda u: u * beta),
        st.floats(-3.0, 9.0).map(lambda u: u * beta),
        st.sampled_from([0.0, -20.0 * beta, 20.0 * beta, 6.0 * beta]),
    )


def _sigma(beta, allow_zero=False):
    opts = [
        logu(1e-4, 10.0).map(lambda u: u * beta),
        st.floats(0.1, 3.0).map(lambda u: u * beta),
        st.sampled_from([1e-4 * beta, 10.0 * beta, 2.0 * beta]),
    ]
    if allow_zero:
        opts.append(st.just(0.0))
    return st.one_of(*opts)


def _dyadic(lo, hi, k):
    """multiples of 2^-k in [lo, hi]"""
    s = 2 ** k
    return st.integers(int(math.ceil(lo * s)), int(math.floor(hi * s))).map(lambda i: i / s)


REGIMES = ["generic", "generic", "corner", "team_corner", "near_equal", "near_equal", "equal_sums", "identical", "targeted", "targeted", "dyadic", "int_typed"]


@st.composite
def team_values(draw, cfg, sizes, tau_eff=None, regimes=REGIMES, allow_zero_sigma=False):
    """-> (teams, regime, info).  teams = [[ [mu, sigma], ... ], ...] inside the valid domain."""
    beta = cfg["beta"]
    n = len(sizes)
    regime = draw(st.sampled_from(list(regimes)))
    info = {}
    if regime == "corner":
        mu_s = st.sampled_from([-20.0 * beta, 20.0 * beta, 0.0, 19.999 * beta])
        sg_s = st.sampled_from([1e-4 * beta, 10.0 * beta] + ([0.0] if allow_zero_sigma else []))
        teams = [[[draw(st.one_of(mu_s, _mu(beta))), draw(st.one_of(sg_s, _sigma(beta)))] for _ in range(k)] for k in sizes]
    elif regime == "team_corner":
        # coherent extremes: every member of a team sits at the same bound, so that team *sums* reach +-(size * 20 beta) and team
        # variances their extremes (what drives exp() arguments and Gaussian tails); teams choose independently
        teams = []
        for k in sizes:
            m = draw(st.sampled_from([-20.0 * beta, 20.0 * beta, 20.0 * beta, -20.0 * beta, 0.0]))
            sg = draw(st.sampled_from([1e-4 * beta, 1e-4 * beta, 0.2 * beta, 10.0 * beta] + ([0.0] if allow_zero_sigma else [])))
            teams.append([[m, sg] for _ in range(k)])
    elif regime == "int_typed":
        # what `model.rating(mu=30, sigma=5)` gives: mu and sigma are Python ints, not floats (mixed with float-typed team mates)
        lo_s = max(1, math.ceil(1e-4 * beta))
        hi_s = max(lo_s, math.floor(10 * beta))
        hi_m = max(1, math.floor(20 * beta))
        teams = [[[draw(st.integers(-hi_m, hi_m)) if beta >= 0.5 and draw(st.integers(0, 3)) > 0 else draw(_mu(beta)),
                   draw(st.integers(lo_s, hi_s)) if beta >= 0.5 and draw(st.integers(0, 3)) > 0 else draw(_sigma(beta))] for _ in range(k)] for k in sizes]
    elif regime == "max_gap":
        # the largest standardised gaps the domain admits: whole teams of settled players at opposite ends of the mu range (what the
        # arguments of exp() and the Gaussian tails are bounded by: up to 16 * 40 beta / (sqrt(2) beta) = 452)
        teams = []
        for idx, k in enumerate(sizes):
            end = (20.0 if idx % 2 == 0 else -20.0) * draw(st.sampled_from([1.0, 1.0, -1.0, 0.0]))
            teams.append([[end * beta * (1.0 - draw(st.floats(0.0, 0.02))), 10.0 ** draw(st.floats(-4.0, -1.5)) * beta] for _ in range(k)])
    elif regime == "equal_sums":
        # teams of DIFFERENT composition whose totals are exactly equal the way realistic data makes them equal: small integers times a
        # decimal unit ((10, 20) v (15, 15), everyone on 25 with individual sigmas).  Sigmas differ; float equality of the sums may or may
        # not survive a rescaling or a shift (0.1 + 0.2 != 0.15 + 0.15).
        unit = draw(st.sampled_from([1.0, 0.1, 0.01, 0.5])) * beta * draw(st.sampled_from([1.0, 0.24]))
        per_player = draw(st.integers(1, 12))
        teams = []
        for k in sizes:
            total = per_player * k
            cuts = sorted(draw(st.lists(st.integers(0, total), min_size=k - 1, max_size=k - 1)))
            parts = [b - a for a, b in zip([0] + cuts, cuts + [total])]
            if draw(st.integers(0, 4)) == 0:
                parts[0] += draw(st.sampled_from([1, -1]))  # one team off by one unit
            teams.append([[max(-20.0 * beta, min(20.0 * beta, part * unit)), draw(_sigma(beta, allow_zero_sigma))] for part in parts])
    elif regime == "dyadic":
        # exact sums and differences: mu multiples of 2^-4 beta-free units, sigma powers of two
        unit = 2.0 ** round(math.log2(beta))
        lim = 20.0 * beta / unit
        teams = [[[draw(_dyadic(-min(lim, 64), min(lim, 64), 3)) * unit, draw(st.sampled_from([0.25, 0.5, 1.0, 2.0, 4.0])) * unit]
                  for _ in range(k)] for k in sizes]
    elif regime in ("near_equal", "identical"):
        k0 = sizes[0] if regime == "identical" else None
        base = [[draw(_mu(beta)), draw(_sigma(beta, allow_zero_sigma))] for _ in range(k0 or max(sizes))]
        teams = []
        for k in sizes:
            if regime == "identical":
                members = [list(p) for p in base]
                if draw(st.booleans()):
                    members = draw(st.permutations(members))
                teams.append([list(p) for p in members])
            else:
                members = [list(base[j]) for j in range(k)]
                how = draw(st.integers(0, 3))
                if how == 1:
                    j = draw(st.integers(0, k - 1))
                    ulps = draw(st.integers(-3, 3))
                    m = members[j][0]
                    for _ in range(abs(ulps)):
                        m = math.nextafter(m, math.inf if ulps > 0 else -math.inf)
                    if abs(m) <= 20.0 * beta:
                        members[j][0] = m
                elif how >= 2:
                    # near-coincidence at EVERY scale: a relative offset whose magnitude is log-uniform between rounding level and 1 %
                    # (a window such as "within 1e-6 relative but not equal" lies somewhere on that axis)
                    j = draw(st.integers(0, k - 1))
                    rel = 10.0 ** draw(st.floats(-15.0, -2.0)) * draw(st.sampled_from([1.0, -1.0]))
                    m = members[j][0] + rel * max(abs(members[j][0]), beta)
                    if abs(m) <= 20.0 * beta:
                        members[j][0] = m
                    if draw(st.booleans()):
                        members[j][1] = members[j][1] * (1.0 + 10.0 ** draw(st.floats(-15.0, -2.0)))
                        members[j][1] = min(10.0 * beta, max(1e-4 * beta, members[j][1]))
                teams.append(members)
        info["sizes_overridden"] = regime == "identical"
    else:
        teams = [[[draw(_mu(beta)), draw(_sigma(beta, allow_zero_sigma))] for _ in range(k)] for k in sizes]
        if regime == "targeted" and n >= 2:
            # construct one member's mu so that the standardised gap of a drawn pair hits the band where the
            # Thurstone-Mosteller corrections cancel / switch branch
            i = draw(st.integers(0, n - 1))
            q = draw(st.integers(0, n - 2))
            if q >= i:
                q += 1
            te = cfg["tau"] if tau_eff is None else tau_eff
            var = lambda t: sum(p[1] * p[1] + te * te for p in t)  # noqa: E731
            c = math.sqrt(var(teams[i]) + var(teams[q]) + 2 * beta * beta) * (2.0 if cfg["kind"] == "TMP" else 1.0)
            x = draw(st.one_of(
                st.floats(-9.0, -5.0), st.floats(5.0, 9.0),
                st.floats(-0.05, 0.05).map(lambda d: -8.1259 + d), st.floats(-0.05, 0.05).map(lambda d: 8.1259 + d),
                st.floats(-20.0, 20.0), st.just(0.0)))
            cur = sum(p[0] for p in teams[i]) - sum(p[0] for p in teams[q])
            j = draw(st.integers(0, len(teams[i]) - 1))
            nm = teams[i][j][0] + (x * c - cur)
            if abs(nm) <= 20.0 * beta:
                teams[i][j][0] = nm
                info["target_x"] = x
    return teams, regime, info


# ------------------------------------------------------------------------------------------------
# outcomes (weak orders) and their encodings
# ------------------------------------------------------------------------------------------------
def dense(values):
    srt = sorted(set(values))
    return [srt.index(v) for v in values]


@st.composite
def weak_orders(draw, n, shapes_=("free", "free", "none", "none", "all", "onetie", "identity")):
    shape = draw(st.sampled_from(list(shapes_)))
    if shape == "identity":
        return list(range(n))
    if shape == "none":
        return list(draw(st.permutations(list(range(n)))))
    if shape == "all":
        return [0] * n
    if shape == "onetie" and n >= 3:
        perm = list(draw(st.permutations(list(range(n)))))
        k = draw(st.integers(2, n))
        tied = sorted(perm[:k])
        target = perm[0]
        return dense([target if v in tied else v for v in perm])
    return dense(draw(st.lists(st.integers(0, n - 1), min_size=n, max_size=n)))


def tie_shape(classes):
    n = len(classes)
    m = len(set(classes))
    if m == n:
        return "tie:none"
    if m == 1:
        return "tie:all"
    counts = sorted((classes.count(c) for c in set(classes)), reverse=True)
    if counts[0] >= 3:
        return "tie:multiway"
    return "tie:pair"


INT_ENC = ["int", "int_relabel"]
ALL_ENC = ["int", "int_relabel", "float", "mixed", "bool", "huge", "zero_neg", "small_ints", "half_grid", "close", "runaway", "scores", "scores_small", "scores_float", "scores_huge", "scores_runaway", "omitted"]


@st.composite
def _increasing(draw, m, kind):
    """m strictly increasing Python numbers of the requested flavour (verified pairwise <)."""
    if kind == "int":
        return list(range(m))
    if kind == "int_relabel":
        start = draw(st.integers(-50, 50))
        gaps = draw(st.lists(st.integers(1, 40), min_size=m, max_size=m))
        out, cur = [], start
        for g in gaps:
            out.append(cur)
            cur += g
        return out
    if kind == "bool":
        return [False, True][:m]
    if kind == "zero_neg":
        # values ending at / crossing zero
        gaps = draw(st.lists(st.integers(1, 5), min_size=m, max_size=m))
        top = draw(st.integers(0, 2))
        out, cur = [], top
        for g in reversed(gaps):
            out.append(cur)
            cur -= g
        return list(reversed(out))
    if kind == "runaway":
        # one runaway value far from a cluster of close, ordinary ones (a score of 1e18 next to 5400.0 and 5399.0): what `x - max` or
        # float conversion absorbs
        far = draw(st.sampled_from([1e18, 1e300, 10 ** 30, 2.0 ** 60, 1e16, 123456789012345678]))
        start = draw(st.sampled_from([0, 5399, -3, 0.5, 1000.25]))
        step = draw(st.sampled_from([1, 1, 0.5, 0.001]))
        cluster = [start + i * step for i in range(m - 1)]
        if draw(st.booleans()):
            cluster = [float(v) for v in cluster]
        return ([-far] + cluster) if draw(st.booleans()) else (cluster + [far])
    if kind == "half_grid":
        # a small grid of halves, ints where integral (0, 0.5, 1, 1.5, ...): endpoints and integer values coincide with what positional
        # ranks look like ([0, 0.5, 2] spans exactly 0..n-1 without being a permutation of it)
        lo = draw(st.sampled_from([0, 0, 0, -2, 1]))
        if m >= 2 and draw(st.booleans()):
            # span EXACTLY lo .. lo + m - 1 (what positional ranks span), with the values in between on the half grid
            top = 2 * (m - 1)
            middle = sorted(draw(st.lists(st.integers(1, top - 1), min_size=m - 2, max_size=m - 2, unique=True))) if m > 2 else []
            ks = [0] + middle + [top]
        else:
            ks = sorted(draw(st.lists(st.integers(0, 2 * m + 2), min_size=m, max_size=m, unique=True)))
        out = []
        for k in ks:
            v = lo + k / 2.0
            out.append(int(v) if v == int(v) and draw(st.booleans()) else v)
        return out
    if kind == "small_ints":
        # dense small integers around zero: different games keep producing the same / neighbouring value tuples
        # (-2, -1), (-1, -1), (-1, 0), ... - what a value-keyed cache or a hash-keyed lookup would confuse
        hi = max(2, m - 2)
        return sorted(draw(st.lists(st.integers(-3, hi), min_size=m, max_size=m, unique=True)))
    if kind == "close":
        # distinct values that are *relatively* very close: a few ulps or 1e-10 relative apart at a large (or tiny) magnitude
        base = draw(st.sampled_from([1.7e9, 1e12, 2.0 ** 52, 1.0, 1e-3, 1e15, 123456.789, 1e300, 1e-300]))
        base = base * draw(st.sampled_from([1.0, -1.0]))
        mode = draw(st.integers(0, 2))
        out = [base]
        for _ in range(m - 1):
            cur = out[-1]
            if mode == 0:
                nxt = cur
                for _ in range(draw(st.integers(1, 4))):
                    nxt = math.nextafter(nxt, math.inf)
            elif mode == 1:
                nxt = cur + abs(cur) * draw(st.sampled_from([1e-10, 3e-10, 1e-12, 1e-9]))
            else:
                nxt = cur + max(1.0, abs(cur) * 2.0 ** -52)
            if not nxt > cur:
                nxt = math.nextafter(cur, math.inf)
            out.append(nxt)
        return out
    if kind == "huge":
        # includes neighbours that only exact integer comparison keeps apart (2^53 vs 2^53 + 1, 2^60 vs 2^60 + 1, 10^30 vs 10^30 + 1)
        pool = [-10 ** 30 - 1, -10 ** 30, -1e300, -2 ** 60 - 1, -2 ** 60, -2 ** 53 - 1, -2.0 ** 53, -10 ** 18, -1.5, 0, 0.5, 2.0 ** 53, 2 ** 53 + 1,
                2 ** 60, 2 ** 60 + 1, 1e18, 10 ** 18 + 1, 1e300, 10 ** 30, 10 ** 30 + 1]
        pool = sorted(set(pool))
        for a, b in zip(pool, pool[1:]):
            assert a < b
        idx = set(draw(st.lists(st.integers(0, len(pool) - 1), min_size=m, max_size=m, unique=True)))
        if m >= 2 and draw(st.integers(0, 2)) > 0:
            # make sure a pair of NEIGHBOURS that only exact comparison separates is among the values (both members)
            pairs = [i for i in range(len(pool) - 1) if float(pool[i]) == float(pool[i + 1])]
            i = draw(st.sampled_from(pairs))
            # the other values preferably all on one side, so that the pair holds the first two or the last two places
            above = list(range(i + 2, len(pool)))
            below = list(range(0, i))
            side = draw(st.sampled_from(["above", "below", "any"]))
            cand = above if side == "above" and len(above) >= m - 2 else below if side == "below" and len(below) >= m - 2 else above + below
            rest = list(draw(st.permutations(cand)))[: m - 2]
            idx = set(rest) | {i, i + 1}
        return [pool[i] for i in sorted(idx)][:m] if len(idx) >= m else [pool[i] for i in sorted(idx)]
    # float / mixed: floats (some integral-valued), strictly increasing
    vals = draw(st.lists(st.one_of(st.floats(-1e6, 1e6), st.integers(-20, 20).map(float), st.floats(-2.0, 2.0)),
                         min_size=m, max_size=m, unique=True))
    return sorted(vals)


def _alias(draw, v, kind):
    """An equal value of possibly different type (tied teams may be encoded 1 and 1.0)."""
    if kind != "mixed":
        return v
    if isinstance(v, float) and v == int(v) and abs(v) < 2 ** 53:
        choice = draw(st.integers(0, 3))
        if choice == 0:
            return int(v)
        if choice == 1 and v == 0.0:
            return draw(st.sampled_from([0, 0.0, -0.0, False]))
        if choice == 2 and v == 1.0:
            return draw(st.sampled_from([1, 1.0, True]))
    return v


@st.composite
def encodings(draw, classes, kinds=ALL_ENC):
    """-> (call fragment {'ranks': [...]} | {'scores': [...]} | {}, encoding kind)."""
    n = len(classes)
    m = max(classes) + 1
    allowed = [k for k in kinds if (k != "bool" or m <= 2) and (k != "omitted" or classes == list(range(n)))]
    kind = draw(st.sampled_from(allowed))
    if kind == "omitted":
        return {}, kind
    base = {"scores": "int_relabel", "scores_float": "float", "scores_small": "small_ints", "scores_huge": "huge", "scores_runaway": "runaway"}.get(kind, kind)
    vals = draw(_increasing(m, base))
    for a, b in zip(vals, vals[1:]):
        assert a < b
    mixed = "mixed" if kind in ("mixed", "scores_float") else kind
    enc = [_alias(draw, vals[c], mixed) for c in classes]
    if kind == "mixed" and draw(st.booleans()):
        enc = [(_alias(draw, float(v), "mixed") if isinstance(v, int) and not isinstance(v, bool) and abs(v) < 2 ** 53 else v) for v in enc]
    if kind in ("scores", "scores_float", "scores_small", "scores_huge", "scores_runaway"):
        return {"scores": [-v for v in enc]}, kind
    return {"ranks": enc}, kind


# ------------------------------------------------------------------------------------------------
# whole games
# ------------------------------------------------------------------------------------------------
@st.composite
def games(draw, kinds=KINDS, enc_kinds=ALL_ENC, regimes=REGIMES, max_teams=8, max_size=8, options=True, cfg_kw=None,
          order_shapes=None, allow_zero_sigma=False, cfg=None, extras=True):
    """A full valid rate() case: {'cfg', 'teams', 'call', 'classes', 'meta'}."""
    if cfg is None:
        cfg = draw(configs(kinds=kinds, **(cfg_kw or {})))
    sizes = draw(shapes(max_teams=max_teams, max_size=max_size))
    opts = draw(call_options(cfg)) if options else {}
    tau_eff = cfg["tau"] if opts.get("tau") is None else opts["tau"]
    teams, regime, info = draw(team_values(cfg, sizes, tau_eff=tau_eff, regimes=regimes, allow_zero_sigma=allow_zero_sigma))
    n = len(teams)
    classes = draw(weak_orders(n, **({"shapes_": order_shapes} if order_shapes else {})))
    frag, enc = draw(encodings(classes, kinds=enc_kinds))
    call = dict(frag)
    for k, v in opts.items():
        if v is not None:
            call[k] = v
    if frag and draw(st.integers(0, 9)) == 0:
        # the values are ints / floats by isinstance, but instances of subclasses (what enum.IntEnum members, or a user's own numeric types, are)
        call["number_types"] = draw(st.sampled_from(["int-subclass", "float-subclass", "both"]))
    if extras and draw(st.integers(0, 4)) == 0:
        # the model has been through one call that did not complete normally before this one (osk.model_for)
        from vf import failing

        if draw(st.integers(0, 3)) == 0:
            # ... namely THIS call with one number replaced by a Decimal / Fraction of the same value (failing.run_mirror)
            call["prelude"] = {"op": "fail", "kind": "mirror", "what": draw(st.sampled_from(["outcome", "outcome", "tau"])),
                               "as": draw(st.sampled_from(["decimal", "fraction"])), "idx": draw(st.integers(0, 7))}
        else:
            call["prelude"] = draw(failing.failing_specs(cfg))
    if extras and draw(st.integers(0, 7)) == 0:
        # rate(teams, ranks, scores, tau, limit_sigma): the first 1-4 of them passed positionally (osk.rate)
        call["positional"] = draw(st.integers(1, 4))
    if extras and draw(st.integers(0, 7)) == 0:
        # distinct rating objects that share one id (deepcopy clones of a template with their own values): see osk.mk_teams
        call["clone_ids"] = draw(st.sampled_from(["all", "alternate"]))
    return {"cfg": cfg, "teams": teams, "call": call, "classes": classes, "meta": {"regime": regime, "enc": enc, **info}}


def game_labels(case):
    t = case["teams"]
    cl = case["classes"]
    out = [f"n:{len(t)}", f"maxsize:{max(len(x) for x in t)}", tie_shape(cl), "enc:" + case["meta"]["enc"],
           "regime:" + case["meta"]["regime"], "kind:" + case["cfg"]["kind"], "gamma:" + case["cfg"].get("gamma", "default")]
    if cl != sorted(cl):
        out.append("order:unsorted")
    return out
