"""Child interpreter of the C14 long-running-service clause: ONE fresh process, ONE long-lived model.

The recurring calls R are evaluated first (the very first calls of the process), then K filler calls with ever new line-ups, outcomes
and options are made through the same model; at every checkpoint R is evaluated again on the same model and must return exactly what
it returned at the start.  Prints {"mismatches": [...], "fillers": K, "raised": n}.  Fillers are expanded from the PRNG seed in the
spec (drawn by Hypothesis in the parent), so the whole run is a pure function of the spec.
"""
import json
import random
import sys

from vf.osk import mk_model
from vf.props.c14 import run_job


def filler(rng, cfg):
    beta = cfg["beta"]
    n = rng.choice([2, 2, 2, 3, 3, 4])
    teams = [[[beta * rng.uniform(-3.0, 9.0), beta * 10.0 ** rng.uniform(-1.5, 0.5)] for _ in range(rng.choice([1, 1, 2, 3]))] for _ in range(n)]
    op = rng.choice(["rate", "rate", "predict_win", "predict_draw", "predict_rank"])
    job = {"op": op, "teams": teams}
    if op == "rate":
        how = rng.random()
        if how < 0.4:
            job["call"] = {"scores": [float(rng.randint(0, 120)) + rng.choice([0.0, 0.5]) for _ in range(n)]}  # scorelines: ever new vectors
        elif how < 0.8:
            job["call"] = {"ranks": [rng.randint(0, n - 1) for _ in range(n)]}
        else:
            job["call"] = {}
        if rng.random() < 0.2:
            job["call"]["tau"] = beta * rng.choice([0.0, 0.02, rng.random()])
        if rng.random() < 0.2:
            job["call"]["limit_sigma"] = rng.random() < 0.6
    return job


def main():
    spec = json.load(open(sys.argv[1]))
    cfg, rec = spec["cfg"], spec["recurring"]
    model = mk_model(cfg)
    ref = [run_job(model, j) for j in rec]
    rng = random.Random(spec["prng"])
    cps = set(spec["checkpoints"])
    out = {"mismatches": [], "fillers": 0, "raised": 0}
    def flat(x):
        if isinstance(x, (list, tuple)):
            for y in x:
                yield from flat(y)
        else:
            yield x

    for k in range(1, spec["K"] + 1):
        job = filler(rng, cfg)
        try:
            r = run_job(model, job)
            if "first_nonfinite" not in out and not all(isinstance(v, (int, float)) and v == v and abs(v) != float("inf") for v in flat(r)):
                out["first_nonfinite"] = {"after": k, "job": job, "result": repr(r)[:400]}
        except Exception as e:  # noqa: BLE001 - judged by C08's clause (totality), not by C14's
            out["raised"] += 1
            if "first_raised" not in out:
                out["first_raised"] = {"after": k, "job": job, "error": repr(e)[:300]}
        out["fillers"] = k
        if k in cps:
            for idx, j in enumerate(rec):
                try:
                    r = run_job(model, j)
                except Exception as e:  # noqa: BLE001
                    r = {"raised": repr(e)}
                if r != ref[idx]:
                    out["mismatches"].append({"after": k, "index": idx, "first": ref[idx], "now": r, "model": "same"})
            if out["mismatches"] and spec.get("stop_at_first_mismatch", True):
                break
    if not out["mismatches"]:
        other = mk_model(cfg)
        for idx, j in enumerate(rec):
            try:
                r = run_job(other, j)
            except Exception as e:  # noqa: BLE001
                r = {"raised": repr(e)}
            if r != ref[idx]:
                out["mismatches"].append({"after": out["fillers"], "index": idx, "first": ref[idx], "now": r, "model": "new instance, same process"})
    # what the recurring calls return at the very end, on the long-lived model (judged by the property-specific service clauses)
    last = []
    for j in rec:
        try:
            last.append(run_job(model, j))
        except Exception as e:  # noqa: BLE001
            last.append({"raised": repr(e)})
    out["first"] = ref
    out["last"] = last
    # ... and "mixed" line-ups: a team the model saw at the very start next to teams it has never seen, in ONE call (all three predictions)
    mixed = []
    beta = cfg["beta"]
    seen_teams = []
    for j in rec:
        if j["teams"][0] not in seen_teams:
            seen_teams.append(j["teams"][0])
    for old in seen_teams[:8]:
        fresh = [[[beta * rng.uniform(-3.0, 9.0), beta * 10.0 ** rng.uniform(-1.5, 0.5)] for _ in range(rng.choice([1, 2]))] for _ in range(rng.choice([2, 3]))]
        teams = [fresh[0], old] + fresh[1:]
        res = {}
        for op in ("predict_rank", "predict_draw", "predict_win"):
            try:
                res[op] = run_job(model, {"op": op, "teams": teams})
            except Exception as e:  # noqa: BLE001
                res[op] = {"raised": repr(e)}
        mixed.append({"teams": teams, "results": res})
    out["mixed"] = mixed
    json.dump(out, sys.stdout)


if __name__ == "__main__":
    main()
