"""atheris target for C08 (totality): bytes -> structured valid game of the widest domain -> same oracle as the Hypothesis clause."""
from __future__ import annotations

import sys

from vf.fuzz.harness import Reader, Writer, run_target
from vf.osk import GAMMA_NAMES, KINDS

SCALES = [1.0, 1e-3, 1e-2, 0.1, 10.0, 100.0, 1e3]
B0 = 25.0 / 6.0
MU_SPECIAL = [None, -20.0, 20.0, 0.0, 6.0]
SG_SPECIAL = [None, 1e-4, 10.0, 0.0, 1.0]


def decode(r: Reader):
    if r.left() < 6:
        return None
    kind = r.pick(KINDS)
    scale = r.pick(SCALES)
    beta = B0 * scale
    kappa = 10.0 ** (-12.0 + 10.0 * r.unit())
    tau_sel = r.u8() % 4
    tau = [beta / 50.0, 0.0, 1e-6 * beta, 2.0 * beta * r.unit()][tau_sel]
    cfg = {"kind": kind, "scale": scale, "mu": 25.0 * scale, "sigma": 25.0 / 3.0 * scale, "beta": beta, "kappa": kappa, "tau": tau,
           "limit_sigma": bool(r.u8() & 1), "gamma": r.pick(GAMMA_NAMES)}
    n = r.rng(2, 8)
    teams = []
    for _ in range(n):
        k = r.rng(1, 16)
        t = []
        coherent = r.u8()
        if coherent & 1:
            # whole team at one corner (team sums / variances at their extremes)
            mu = [-20.0, 20.0, 0.0, 20.0][(coherent >> 1) % 4] * beta
            sg = [1e-4, 0.2, 10.0, 1e-4][(coherent >> 3) % 4] * beta
            teams.append([[mu, sg] for _ in range(k)])
            continue
        for _ in range(k):
            ms = r.pick(MU_SPECIAL)
            mu = (ms if ms is not None else -20.0 + 40.0 * r.unit()) * beta
            ss = r.pick(SG_SPECIAL)
            sg = (ss if ss is not None else 10.0 ** (-4.0 + 5.0 * r.unit())) * beta
            t.append([mu, sg])
        teams.append(t)
    call = {}
    enc = r.u8() % 5
    raw = [r.rng(0, n - 1) for _ in range(n)]
    if enc == 0:
        call["ranks"] = raw
    elif enc == 1:
        call["ranks"] = [float(v) - 0.5 for v in raw]
    elif enc == 2:
        call["scores"] = [-v for v in raw]
    elif enc == 3:
        call["scores"] = [1.5 * v for v in raw]
    opt = r.u8()
    if opt & 1:
        call["tau"] = [0.0, beta / 7.0, 2.0 * beta][(opt >> 1) % 3]
    if opt & 8:
        call["limit_sigma"] = bool(opt & 16)
    tau_eff = call.get("tau", tau)
    if tau_eff < 1e-6 * beta:
        for t in teams:
            for p in t:
                if p[1] == 0.0:
                    p[1] = 1e-4 * beta
    srt = sorted(set(raw))
    return {"cfg": cfg, "teams": teams, "call": call, "classes": [srt.index(v) for v in raw],
            "meta": {"regime": "fuzz", "enc": ["int", "float", "scores", "scores_float", "omitted"][enc]}}


def encode_simple(kind_idx, teams_units, ranks):
    """inverse of decode for plain games at scale 1 (seed corpus): teams_units = [[(mu/beta in [-20,20], log10(sigma/beta))]]"""
    w = Writer()
    w.u8(kind_idx)
    w.u8(0)  # scale 1
    w.unit((12.0 - 4.0) / 10.0)  # kappa 1e-4
    w.u8(0)  # default tau
    w.u8(0)  # limit_sigma False
    w.u8(0)  # default gamma
    n = len(teams_units)
    w.u8(n - 2)
    for t in teams_units:
        w.u8(len(t) - 1)
        w.u8(0)  # not a coherent-corner team
        for mu_u, lg in t:
            w.u8(0)
            w.unit((mu_u + 20.0) / 40.0)
            w.u8(0)
            w.unit((lg + 4.0) / 5.0)
    w.u8(0)
    for v in ranks:
        w.u8(v)
    w.u8(0)
    return w.bytes()


def seed_corpus():
    """the shapes of the repository's golden scenarios (two 1v1, 3 FFA, 2v2-ish, ties), one per model kind"""
    out = []
    d = (6.0, 0.30103)  # mu = 25, sigma = 2*beta
    for k in range(5):
        out.append(encode_simple(k, [[d], [d]], [1, 0]))
        out.append(encode_simple(k, [[d], [d], [d]], [1, 0, 2]))
        out.append(encode_simple(k, [[d, d], [d]], [0, 0]))
        out.append(encode_simple(k, [[d], [d, d], [d, d, d]], [0, 1, 0]))
    return out


def check(case, ctx):
    from vf.props.c08 import check_c08

    check_c08(case, ctx)


if __name__ == "__main__":
    run_target(decode, check, "C08", "atheris-totality", sys.argv)
