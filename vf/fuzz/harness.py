"""atheris plumbing shared by the fuzz targets (thorough tier of C08 and C13).

Child side  : run_target(decode, check, argv)   - in-process libFuzzer loop, semantic oracle inside the target
Parent side : fuzz_clause(ctx, module, runs, seed, workdir, corpus) - launches the child, collects statistics,
              turns a crash into a Violation carrying the decoded case (which becomes the replay file).
Bytes are decoded by a tiny sequential Reader (not FuzzedDataProvider) so that seed inputs can be *encoded*
from known games (Writer is the inverse).
"""
from __future__ import annotations

import json
import os
import struct
import subprocess
import sys
import time

from vf.core import Ctx, HarnessError, Violation, case_hash


class Reader:
    def __init__(self, data: bytes):
        self.d = data
        self.i = 0

    def u8(self):
        if self.i < len(self.d):
            v = self.d[self.i]
            self.i += 1
            return v
        return 0

    def u16(self):
        return self.u8() << 8 | self.u8()

    def pick(self, seq):
        return seq[self.u8() % len(seq)]

    def rng(self, lo, hi):
        """integer in [lo, hi]"""
        return lo + self.u8() % (hi - lo + 1)

    def unit(self):
        return self.u16() / 65535.0

    def f64(self):
        raw = bytes(self.u8() for _ in range(8))
        return struct.unpack(">d", raw)[0]

    def left(self):
        return len(self.d) - self.i


class Writer:
    def __init__(self):
        self.b = bytearray()

    def u8(self, v):
        self.b.append(int(v) & 0xFF)

    def u16(self, v):
        v = int(v) & 0xFFFF
        self.b += bytes([v >> 8, v & 0xFF])

    def unit(self, x):
        self.u16(round(max(0.0, min(1.0, x)) * 65535))

    def f64(self, x):
        self.b += struct.pack(">d", x)

    def bytes(self):
        return bytes(self.b)


def run_target(decode, check, prop, clause, argv):
    out_dir = os.environ["VF_FUZZ_OUT"]
    import atheris

    with atheris.instrument_imports(include=["openskill"]):
        import openskill.models  # noqa: F401
        import openskill.models.weng_lin.common  # noqa: F401
    ctx = Ctx(prop, clause)
    state = {"n": 0, "undecodable": 0, "t0": time.time()}

    def dump():
        r = ctx.result()
        r["executions"] = state["n"]
        r["undecodable"] = state["undecodable"]
        with open(os.path.join(out_dir, "stats.json.tmp"), "w") as f:
            json.dump(r, f, default=repr)
        os.replace(os.path.join(out_dir, "stats.json.tmp"), os.path.join(out_dir, "stats.json"))

    def one(data):
        state["n"] += 1
        case = decode(Reader(data))
        if case is None:
            state["undecodable"] += 1
            return
        ctx.begin(case)
        try:
            check(case, ctx)
        except Violation as v:
            with open(os.path.join(out_dir, "failure.json"), "w") as f:
                json.dump({"bucket": v.bucket, "detail": v.detail, "case": case}, f, default=repr)
            dump()
            raise
        ctx.end()
        if state["n"] % 500 == 0:
            dump()

    atheris.Setup(argv, one)
    atheris.Fuzz()


def fuzz_clause(ctx, module, runs, seed, tag, corpus_inputs=(), max_len=512, timeout=3600):
    """Runs one libFuzzer campaign of `runs` executions in a child; merges its statistics into ctx."""
    here = os.path.dirname(os.path.dirname(os.path.dirname(os.path.abspath(__file__))))
    work = os.path.join(here, ".work", f"fuzz-{tag}-{os.getpid()}")
    corpus = os.path.join(work, "corpus")
    os.makedirs(corpus, exist_ok=True)
    for k, b in enumerate(corpus_inputs):
        with open(os.path.join(corpus, f"seed{k:03d}"), "wb") as f:
            f.write(b)
    env = dict(os.environ, VF_FUZZ_OUT=work)
    cmd = [sys.executable, "-B", "-m", module, f"-runs={runs}", f"-seed={max(1, seed % (2 ** 31))}", f"-max_len={max_len}",
           f"-artifact_prefix={work}/", "-print_final_stats=1", "-timeout=60", "-len_control=0", corpus]
    p = subprocess.run(cmd, capture_output=True, text=True, env=env, timeout=timeout)
    stats_path = os.path.join(work, "stats.json")
    fail_path = os.path.join(work, "failure.json")
    stats = json.load(open(stats_path)) if os.path.exists(stats_path) else None
    failure = json.load(open(fail_path)) if os.path.exists(fail_path) else None
    cov = None
    for line in p.stderr.splitlines():
        if " cov: " in line:
            try:
                cov = int(line.split(" cov: ")[1].split()[0])
            except (IndexError, ValueError):
                pass
    # clean the work directory (nothing under .work is needed afterwards)
    for root, dirs, files in os.walk(work, topdown=False):
        for fn in files:
            os.remove(os.path.join(root, fn))
        for d in dirs:
            os.rmdir(os.path.join(root, d))
    os.rmdir(work)
    if stats is not None:
        ctx.evaluations += stats["evaluations"]
        ctx.calls += stats["calls"]
        ctx.nontrivial.update(stats["nontrivial"])
        ctx.labels.update(stats["labels"])
        ctx.excluded.update(stats["excluded"])
        ctx.excluded["fuzz-input-not-decodable"] += stats.get("undecodable", 0)
        for s in stats["samples"]:
            if len(ctx.samples) < ctx.MAX_SAMPLES:
                ctx.samples.append(s)
        ctx.maxi("libFuzzer executions", stats.get("executions", 0))
        if cov is not None:
            ctx.maxi("libFuzzer coverage (edges)", cov)
    if failure is not None:
        v = Violation(failure["bucket"], failure["detail"])
        v.case = failure["case"]
        raise v
    if p.returncode != 0:
        raise HarnessError(f"fuzz child {module} exited {p.returncode} without a recorded failure: {p.stderr[-1500:]}")
    if stats is None:
        raise HarnessError(f"fuzz child {module} wrote no statistics: {p.stderr[-1500:]}")
