"""atheris target for C13: a small valid call + byte-driven garbage (from a small object grammar) injected at a byte-chosen site.

The target decides with its own predicate whether the resulting call is well-formed per the statement; malformed calls must raise
TypeError / ValueError and leave every reachable rating and the model untouched, well-formed ones must be accepted.  Calls whose
status the statement does not decide (falsy ranks/scores, NaN / inf) are skipped (counted as not decodable).
"""
from __future__ import annotations

import math
import sys

from vf.core import Violation
from vf.fuzz.harness import Reader, run_target
from vf.osk import KINDS

B0 = 25.0 / 6.0
OPS = ["rate", "rate", "rate", "predict_win", "predict_draw", "predict_rank"]


def garbage_spec(r: Reader, depth=0):
    """-> JSON description of an arbitrary object"""
    k = r.u8() % (14 if depth < 3 else 9)
    if k == 0:
        return ["none"]
    if k == 1:
        return ["bool", bool(r.u8() & 1)]
    if k == 2:
        return ["int", r.u8() - 128]
    if k == 3:
        return ["float", (r.u16() - 32768) / 256.0]
    if k == 4:
        return ["str", "x" * (r.u8() % 4)]
    if k == 5:
        return ["bytes", r.u8() % 4]
    if k == 6:
        return ["own", (r.u8() - 128) / 4.0, 0.1 + r.u8() / 16.0]
    if k == 7:
        return ["foreign", r.u8() % 4, (r.u8() - 128) / 4.0, 0.1 + r.u8() / 16.0]
    if k == 8:
        return ["object"]
    n = r.u8() % 4
    items = [garbage_spec(r, depth + 1) for _ in range(n)]
    return [["list", "tuple", "set", "dict", "list"][k - 9], items]


def decode(r: Reader):
    if r.left() < 8:
        return None
    kind = r.pick(KINDS)
    op = r.pick(OPS)
    n = r.rng(2, 4)
    teams = [[[(-3.0 + 12.0 * r.unit()) * B0, (0.1 + 3.0 * r.unit()) * B0] for _ in range(r.rng(1, 3))] for _ in range(n)]
    sel = r.u8() % 3
    vals = [r.rng(0, 3) if not (r.u8() & 1) else (r.u8() - 128) / 2.0 for _ in range(n)]
    site = r.pick(["teams", "team", "player", "ranks", "scores", "elem", "append-team", "append-player", "both"])
    return {"kind": kind, "op": op, "teams": teams, "sel": [None, "ranks", "scores"][sel], "vals": vals, "site": site,
            "i": r.u8(), "j": r.u8(), "garbage": garbage_spec(r)}


def build_obj(spec, model, foreign, made):
    t = spec[0]
    if t == "none":
        return None
    if t == "bool":
        return spec[1]
    if t in ("int", "float"):
        return spec[1]
    if t == "str":
        return spec[1]
    if t == "bytes":
        return b"y" * spec[1]
    if t == "own":
        o = model.rating(spec[1], spec[2])
        made.append(o)
        return o
    if t == "foreign":
        o = foreign[spec[1]].rating(spec[2], spec[3])
        made.append(o)
        return o
    if t == "object":
        return object()
    items = [build_obj(s, model, foreign, made) for s in spec[1]]
    if t == "list":
        return items
    if t == "tuple":
        return tuple(items)
    if t == "set":
        try:
            return set(items)
        except TypeError:
            return tuple(items)
    if t == "dict":
        return {k: v for k, v in enumerate(items)}
    raise KeyError(t)


def is_number(x):
    return isinstance(x, (int, float))


def check(case, ctx):
    from vf.osk import classes, rating_classes
    from vf.props.c13 import model_snapshot, rating_snapshot

    kind = case["kind"]
    model = classes()[kind]()
    own_cls = rating_classes()[kind]
    others = [classes()[k]() for k in KINDS if k != kind]
    made = []
    teams = [[model.rating(p[0], p[1]) for p in t] for t in case["teams"]]
    for t in teams:
        made.extend(t)
    kw = {}
    if case["sel"]:
        kw[case["sel"]] = list(case["vals"])
    g = build_obj(case["garbage"], model, others, made)
    site, i, j = case["site"], case["i"], case["j"]
    arg = teams
    if site == "teams":
        arg = g
    elif site == "team":
        arg[i % len(arg)] = g
    elif site == "player":
        t = arg[i % len(arg)]
        t[j % len(t)] = g
    elif site == "append-team":
        arg.append(g)
        if case["sel"]:
            kw[case["sel"]].append(0)
    elif site == "append-player":
        arg[i % len(arg)].append(g)
    elif site == "ranks":
        kw.pop("scores", None)
        kw["ranks"] = g
    elif site == "scores":
        kw.pop("ranks", None)
        kw["scores"] = g
    elif site == "elem":
        if case["sel"]:
            kw[case["sel"]][i % len(kw[case["sel"]])] = g
    elif site == "both":
        kw["ranks"] = list(case["vals"])
        kw["scores"] = g
    op = case["op"]
    if op != "rate":
        kw = {}
    # --- the statement's well-formedness predicate -------------------------------------------------
    teams_ok = (isinstance(arg, list) and len(arg) >= 2
                and all(isinstance(t, list) and len(t) >= 1 and all(type(p) is own_cls for p in t) for t in arg))
    undecided = False
    sel_ok = True
    given = []
    for name in ("ranks", "scores"):
        v = kw.get(name)
        if v is None:
            continue
        try:
            truthy = bool(v)
        except Exception:  # noqa: BLE001
            truthy = True
        if not truthy:
            undecided = True  # falsy == "not given": neither required to be rejected nor to be accepted
            continue
        given.append(name)
        if not (isinstance(v, list) and teams_ok and len(v) == len(arg) and all(is_number(x) for x in v)):
            if isinstance(v, list) and not teams_ok:
                pass
            sel_ok = False
        elif any(isinstance(x, float) and not math.isfinite(x) for x in v):
            undecided = True
    if len(given) == 2:
        sel_ok = False
    if teams_ok:
        flat_ids = [id(p) for t in arg for p in t]
        if len(set(flat_ids)) != len(flat_ids):
            undecided = True  # one rating object in two slots: not decided by the statement
    if undecided and teams_ok and sel_ok:
        ctx.exclude("well-formedness not decided by the statement (falsy selector / non-finite value / shared object)")
        return
    well_formed = teams_ok and sel_ok
    before_r = rating_snapshot(made)
    before_m = model_snapshot(model)
    try:
        if op == "rate":
            model.rate(arg, **kw)
        else:
            getattr(model, op)(arg)
        verdict = "accepted"
    except (TypeError, ValueError) as e:
        verdict = "rejected"
        detail = repr(e)
    except Exception as e:  # noqa: BLE001
        verdict = "wrong-exception:" + type(e).__name__
        detail = repr(e)
    ctx.called()
    ctx.label("site:" + site, "op:" + op, "well-formed" if well_formed else "malformed")
    if well_formed:
        if verdict != "accepted":
            raise Violation(f"fuzz:valid-call-{verdict.split(':')[0]}", f"{kind} {op}: well-formed call (site {site}, garbage {case['garbage']}) was {verdict}: {detail}")
    else:
        if verdict == "accepted":
            raise Violation(f"fuzz:malformed-accepted:{site}", f"{kind} {op}: malformed call (site {site}, garbage {case['garbage']}, kwargs {list(kw)}) returned normally")
        if verdict != "rejected":
            raise Violation(f"fuzz:{verdict}:{site}", f"{kind} {op}: malformed call (site {site}, garbage {case['garbage']}) raised {detail}")
        if rating_snapshot(made) != before_r or model_snapshot(model) != before_m:
            raise Violation(f"fuzz:side-effect:{site}", f"{kind} {op}: rejected call (site {site}, garbage {case['garbage']}) modified a rating or the model")
    ctx.nontrivial_if(site in ("player", "elem", "append-player") or case["garbage"][0] in ("foreign", "list", "tuple", "dict", "set"))


if __name__ == "__main__":
    run_target(decode, check, "C13", "atheris-garbage", sys.argv)
