"""Core types shared by all checks: Violation, per-clause statistics context, clause descriptors.

A *clause* is one executable reading of (part of) a property:
  - kind 'given'    : a Hypothesis strategy producing a JSON-serialisable case + a plain check function
  - kind 'stateful' : a RuleBasedStateMachine factory whose machine records its history as JSON steps,
                      + a plain function that replays such a history
  - kind 'custom'   : a function that does its own (generated or exhaustive) exploration
Every plain check function has the signature  check(case, ctx)  and raises Violation on a property
failure.  Anything else that escapes a check function is a harness error (exit 2), never a violation.
"""
from __future__ import annotations

import collections
import hashlib
import json
from dataclasses import dataclass, field
from typing import Any, Callable, Dict, List, Optional


class Violation(Exception):
    """Raised by a check function when the property fails on the current case."""

    def __init__(self, bucket: str, detail: str = ""):
        super().__init__(f"{bucket}: {detail}")
        self.bucket = bucket
        self.detail = detail


class HarnessError(Exception):
    """The machinery (not the code under test) is at fault."""


def canon(case: Any) -> str:
    return json.dumps(case, sort_keys=True, separators=(",", ":"), default=repr)


def case_hash(case: Any) -> str:
    return hashlib.sha1(canon(case).encode()).hexdigest()[:16]


class Ctx:
    """Statistics of one (clause, shard) run; also the per-case API the check functions use."""

    MAX_SAMPLES = 3

    def __init__(self, prop: str, clause: str, known: Dict[str, str] = None, skip: List[str] = None):
        self.prop = prop
        self.clause = clause
        self.known = dict(known or {})  # bucket -> text (open known findings of this property)
        self.skip = set(skip or [])  # buckets already reported in an earlier round: excluded, counted
        self.evaluations = 0
        self.calls = 0
        self.nontrivial: set = set()
        self.labels: collections.Counter = collections.Counter()
        self.excluded: collections.Counter = collections.Counter()
        self.maxima: Dict[str, float] = {}
        self.samples: List[Any] = []
        self._largest = (0, None)
        self.known_seen: Dict[str, Dict[str, Any]] = {}
        self.exhaustive: collections.Counter = collections.Counter()
        self.recent: collections.deque = collections.deque(maxlen=400)  # last cases run in this process (history-dependent failures)
        # current case
        self._case = None
        self._nt = False
        self._labels: List[str] = []

    # ---- per-case API -------------------------------------------------------------------
    def begin(self, case: Any) -> None:
        if not self.recent or self.recent[-1] is not case:
            self.recent.append(case)
        self._case = case
        self._nt = False
        self._labels = []

    def nontrivial_if(self, flag: bool) -> None:
        if flag:
            self._nt = True

    def label(self, *names: str) -> None:
        self._labels.extend(names)

    def exclude(self, reason: str, n: int = 1) -> None:
        self.excluded[reason] += n

    def called(self, n: int = 1) -> None:
        self.calls += n

    def enumerated(self, what: str, n: int = 1) -> None:
        self.exhaustive[what] += n

    def maxi(self, key: str, value: float) -> None:
        v = float(value)
        if v > self.maxima.get(key, float("-inf")):
            self.maxima[key] = v

    def end(self) -> None:
        self.evaluations += 1
        for name in self._labels:
            self.labels[name] += 1
        if self._nt:
            h = case_hash(self._case)
            if h not in self.nontrivial:
                self.nontrivial.add(h)
                if len(self.samples) < self.MAX_SAMPLES:
                    self.samples.append(self._case)
                else:
                    size = len(canon(self._case))
                    if size > self._largest[0] and size < 20000:
                        self._largest = (size, self._case)

    # ---- violation routing ----------------------------------------------------------------
    def route(self, v: Violation, case: Any) -> bool:
        """True if the violation is swallowed (known finding / bucket excluded in a later round)."""
        if v.bucket in self.known:
            rec = self.known_seen.setdefault(v.bucket, {"count": 0, "case": case, "detail": v.detail})
            rec["count"] += 1
            return True
        if v.bucket in self.skip:
            self.exclude("bucket-already-reported:" + v.bucket)
            return True
        return False

    def result(self) -> Dict[str, Any]:
        samples = list(self.samples)
        if self._largest[1] is not None:
            samples.append(self._largest[1])
        return {
            "prop": self.prop,
            "clause": self.clause,
            "evaluations": self.evaluations,
            "calls": self.calls,
            "nontrivial": sorted(self.nontrivial),
            "labels": dict(self.labels),
            "excluded": dict(self.excluded),
            "maxima": dict(self.maxima),
            "samples": samples,
            "known_seen": self.known_seen,
            "exhaustive": dict(self.exhaustive),
        }


@dataclass
class Clause:
    name: str
    kind: str = "given"  # given | stateful | custom
    strategy: Any = None  # given: SearchStrategy (or zero-arg callable returning one)
    check: Optional[Callable[[Any, Ctx], None]] = None  # given: check(case, ctx); stateful: replay(history, ctx)
    machine: Optional[Callable[[Ctx, Callable], Any]] = None  # stateful: factory(ctx, on_fail) -> machine class
    custom: Optional[Callable[[Ctx, int, str, int, int], None]] = None  # custom(ctx, seed, tier, shard, nshards)
    quick: int = 1000  # total generated cases over all shards (given/stateful: examples)
    thorough: int = 20000
    steps_quick: int = 30  # stateful_step_count
    steps_thorough: int = 100
    shards_quick: int = 16
    shards_thorough: int = 16
    rule: str = ""  # what makes a case of this clause non-trivial
    doc: str = ""


@dataclass
class Property:
    pid: str
    clauses: List[Clause]
    rule: str
    assumptions: List[str] = field(default_factory=list)
    level: str = "exploration"
