"""C16 — results do not depend on the unit or origin of the skill scale."""
from __future__ import annotations

from hypothesis import strategies as st

from vf import gen
from vf.budget import Budget, compare_equal
from vf.core import Clause, Property, Violation
from vf.osk import IS_TM, eff_tau, guarded, mk_model, mk_teams, outcome_values, rate_values


def predictions(cfg, teams, ctx):
    m = mk_model(cfg)
    ctx.called(3)
    return (guarded(m.predict_win, mk_teams(m, teams), what="predict_win"),
            guarded(m.predict_draw, mk_teams(m, teams), what="predict_draw"),
            guarded(m.predict_rank, mk_teams(m, teams), what="predict_rank"))


def compare_predictions(kind, a, b, what, bucket):
    (w1, d1, r1), (w2, d2, r2) = a, b
    for i, (x, y) in enumerate(zip(w1, w2)):
        if abs(x - y) > 1e-12:
            raise Violation(bucket + ":predict_win", f"{kind} {what}: predict_win[{i}] {x!r} -> {y!r}")
    if abs(d1 - d2) > 1e-12:
        raise Violation(bucket + ":predict_draw", f"{kind} {what}: predict_draw {d1!r} -> {d2!r}")
    for i, ((ra, pa), (rb, pb)) in enumerate(zip(r1, r2)):
        if abs(pa - pb) > 1e-12:
            raise Violation(bucket + ":predict_rank", f"{kind} {what}: predict_rank[{i}] probability {pa!r} -> {pb!r}")
    probs = sorted(p for _, p in r1)
    separated = all(y - x > 1e-12 or y == x for x, y in zip(probs, probs[1:]))
    near_tie = any(0 < y - x <= 1e-12 for x, y in zip(probs, probs[1:]))
    if separated and not near_tie and [r for r, _ in r1] != [r for r, _ in r2]:
        # exact ties may split under rescaling rounding only if the tie itself was exact; require equality otherwise
        if len(set(probs)) == len(probs):
            raise Violation(bucket + ":predict_rank-ranks", f"{kind} {what}: ranks {[r for r, _ in r1]} -> {[r for r, _ in r2]}")


def scaled_cfg(cfg, f):
    out = dict(cfg)
    for k in ("mu", "sigma", "beta", "tau"):
        out[k] = cfg[k] * f
    out["scale"] = cfg["scale"] * f
    return out


def check_scale(case, ctx):
    cfg, teams, call, f = case["cfg"], case["teams"], case["call"], case["factor"]
    kind = cfg["kind"]
    n = len(teams)
    cfg2 = scaled_cfg(cfg, f)
    teams2 = [[[p[0] * f, p[1] * f] for p in t] for t in teams]
    call2 = dict(call)
    if call2.get("tau") is not None:
        call2["tau"] = call2["tau"] * f
    for lab in gen.game_labels(case):
        ctx.label(lab)
    ctx.label("factor:" + ("pow2" if case["pow2"] else "decimal"))
    compare_predictions(kind, predictions(cfg, teams, ctx), predictions(cfg2, teams2, ctx), f"scaled by {f!r}", "scale")
    if kind not in IS_TM:
        a = rate_values(cfg, teams, call, ctx)
        b = rate_values(cfg2, teams2, call2, ctx)
        bud = Budget(kind, teams, outcome_values(n, call), cfg["beta"], cfg["kappa"], eff_tau(cfg, call))
        b_back = [[(p[0] / f, p[1] / f) for p in t] for t in b]
        worst, bad = compare_equal(bud, a, b_back, cfg, teams, f"posterior of the game scaled by {f!r}, divided by the factor")
        ctx.maxi(f"{kind}:scale diff/budget", worst)
        if case["pow2"]:
            ctx.label("pow2-bit-exact" if a == b_back else "pow2-not-bit-exact")
        if bad:
            raise Violation(f"scale:rate:{kind}", f"{kind} call={call}: {bad}")
    ctx.nontrivial_if(f != 1.0 and (n >= 3 or len(set(case["classes"])) < n))


def check_shift(case, ctx):
    cfg, teams, call, s = case["cfg"], case["teams"], case["call"], case["shift"]
    kind = cfg["kind"]
    n = len(teams)
    beta = cfg["beta"]
    teams2 = [[[p[0] + s, p[1]] for p in t] for t in teams]
    if any(abs(p[0]) > 20 * beta for t in teams2 for p in t):
        ctx.exclude("shifted game leaves the mu range")
        return
    for lab in gen.game_labels(case):
        ctx.label(lab)
    compare_predictions(kind, predictions(cfg, teams, ctx), predictions(cfg, teams2, ctx), f"shifted by {s!r}", "shift")
    a = rate_values(cfg, teams, call, ctx)
    b = rate_values(cfg, teams2, call, ctx)
    k = len(teams[0])
    bud = Budget(kind, teams, outcome_values(n, call), cfg["beta"], cfg["kappa"], eff_tau(cfg, call), mag_extra=abs(s) * k)
    if bud.near_boundary:
        ctx.exclude("branch-boundary")
        return
    # the shifted sums k*s are rounded: |x| moves by ~eps * k * |s| / c, which the budget's R term covers via extra magnitude
    b_back = [[(p[0] - s, p[1]) for p in t] for t in b]
    worst, bad = compare_equal(bud, a, b_back, cfg, teams, f"posterior of the game shifted by {s!r}, minus the shift", mag_extra=abs(s) * k)
    ctx.maxi(f"{kind}:shift diff/budget", worst)
    if bad:
        raise Violation(f"shift:rate:{'TM' if kind in IS_TM else kind}", f"{kind} call={call}: {bad}")
    ctx.nontrivial_if(s != 0.0 and (n >= 3 or len(set(case["classes"])) < n))


@st.composite
def scale_cases(draw):
    g = draw(gen.games(cfg_kw={"scales": False}))
    pow2 = draw(st.booleans())
    if pow2:
        f = 2.0 ** draw(st.integers(-10, 10))
    else:
        f = 10.0 ** draw(st.floats(-3.0, 3.0))
    g["factor"] = f
    g["pow2"] = pow2
    if draw(st.integers(0, 5)) == 0:
        # a tiny tau next to sigmas of its own order: tau^2 runs through 1e-18 .. 1e-7 in absolute terms over the drawn units, so an absolute
        # constant compared with it (an epsilon, "tau is practically zero") changes sides between the two presentations, and the inflation
        # sqrt(sigma^2 + tau^2) matters (tau / sigma between 1e-3 and 0.5)
        beta = g["cfg"]["beta"]
        tau = 10.0 ** draw(st.floats(-9.0, -4.0)) * beta
        g["cfg"]["tau"] = tau
        g["call"].pop("tau", None)
        for t in g["teams"]:
            for p in t:
                p[1] = min(10.0 * beta, max(1e-4 * beta, tau * 10.0 ** draw(st.floats(0.3, 3.0))))
        g["meta"]["tiny_tau"] = True
    return g


@st.composite
def shift_cases(draw):
    cfg = draw(gen.configs(gammas=[g for g in gen.GAMMA_NAMES if g != "mu_dep"]))  # mu_dep is (deliberately) not shift-invariant
    n = draw(st.integers(2, 8))
    k = draw(st.sampled_from([1, 1, 2, 2, 3, 4, 8]))
    g = draw(gen.games(cfg=cfg))
    # force equal team sizes: rebuild values with a fixed shape, mu within half the range so that shifts fit
    teams, regime, info = draw(gen.team_values(cfg, [k] * n, tau_eff=eff_tau(cfg, {}), regimes=["generic", "targeted", "near_equal", "identical", "dyadic"]))
    beta = cfg["beta"]
    for t in teams:
        for p in t:
            p[0] = p[0] / 2.0
    classes = draw(gen.weak_orders(n))
    frag, enc = draw(gen.encodings(classes))
    call = dict(frag)
    for key, v in draw(gen.call_options(cfg)).items():
        if v is not None:
            call[key] = v
    s = draw(st.one_of(st.floats(-10.0, 10.0), st.sampled_from([1.0, -1.0, 6.0, 0.125]))) * beta
    return {"cfg": cfg, "teams": teams, "call": call, "classes": classes, "shift": s, "meta": {"regime": regime, "enc": enc, **info}}


PROPERTY = Property(
    pid="C16",
    clauses=[
        Clause(name="scale", strategy=scale_cases(), check=check_scale, quick=4000, thorough=80000,
               rule="one game and a factor f (2^k exact or 10^u, 1e-3..1e3) applied to every mu, sigma and to the model's mu/sigma/beta/tau (and per-call tau); "
                    "rate compared for PL / BT-full / BT-part, predictions for all five; non-trivial = f != 1 and (>= 3 teams or a tie)"),
        Clause(name="shift", strategy=shift_cases(), check=check_shift, quick=4000, thorough=80000,
               rule="one game with equal team sizes and a constant s added to every mu (all staying in range); rate and predictions compared for all five models; "
                    "non-trivial = s != 0 and (>= 3 teams or a tie)"),
    ],
    rule="generated game + transformation (rescaling / common shift); oracle: posterior rescaled / shifted accordingly within the numerical budget (DESIGN.md 4.4), "
         "predictions unchanged within 1e-12 (ranks equal unless two probabilities are within 1e-12); distinct by SHA-1",
    assumptions=["gamma callbacks of the generated family are scale- and shift-invariant by construction",
                 "shifted games that leave [-20 beta, 20 beta] and games at a TM branch boundary are excluded (counted)"],
)

from vf import opt as _opt  # noqa: E402

PROPERTY.clauses.append(_opt.optimised("C16", next(c for c in PROPERTY.clauses if c.name == "scale"), quick=64, thorough=640))
