"""C17 — V, W, V~, W~ and Phi: finite, in range, accurate (DESIGN.md section 5, C17)."""
from __future__ import annotations

import math
import sys

import mpmath as mp
from hypothesis import strategies as st

from vf import gauss
from vf.core import Clause, Property, Violation
from vf.gauss import EPS, M

FEPS = sys.float_info.epsilon
T_LO, T_HI = 1e-8, 1e-2
X_MAX = 40.0
ZV = -8.125890664701906  # Phi(ZV) = 2^-52  (exact location of the v / w guard in x - t)


def funcs():
    from openskill.models.weng_lin import common as c

    return c.phi_major, c.v, c.w, c.vt, c.wt


# ------------------------------------------------------------------------------------------------
# per-point oracles (exactly the bounds of the statement)
# ------------------------------------------------------------------------------------------------
def _fin(name, val, x, t):
    if not isinstance(val, (int, float)) or not math.isfinite(val):
        raise Violation(f"{name}:nonfinite", f"{name}({x!r}, {t!r}) = {val!r}")


def check_vw_point(x, t, ctx=None, given=None):
    """given = (v value, w value) observed elsewhere (a child process): judged instead of evaluating here"""
    _, v, w, _, _ = funcs()
    if given is not None:
        fv, fw = given
        if isinstance(fv, str) or isinstance(fw, str):
            raise Violation("vw:raised", f"v/w({x!r}, {t!r}): {fv!r} / {fw!r}")
    else:
        try:
            fv = v(x, t)
            fw = w(x, t)
        except Exception as e:  # noqa: BLE001
            raise Violation("vw:raised", f"v/w({x!r}, {t!r}) raised {type(e).__name__}: {e}") from None
    _fin("v", fv, x, t)
    _fin("w", fw, x, t)
    if fv < 0:
        raise Violation("v:negative", f"v({x!r}, {t!r}) = {fv!r} < 0")
    slack = 1e-13 / t
    if not (-slack <= fw <= 1 + slack):
        raise Violation("w:range", f"w({x!r}, {t!r}) = {fw!r} outside [0, 1] +- {slack:.3g}")
    X, T = M(x), M(t)
    d = gauss.Phi(X - T)
    ev = gauss.V(X, T)
    ew = gauss.W(X, T)
    floor = M("1e-300")
    if d >= EPS * (1 + M("1e-9")):
        rv = abs(M(fv) - ev) / (M("1e-6") * ev + floor)
        rw = abs(M(fw) - ew) / (M("1e-6") * ew + floor)
        if ctx:
            ctx.maxi("v_regular_err/1e-6V", rv)
            ctx.maxi("w_regular_err/1e-6W", rw)
        if rv > 1:
            raise Violation("v:accuracy-regular", f"v({x!r}, {t!r}) = {fv!r}, exact V = {mp.nstr(ev, 17)} (rel err {mp.nstr(abs(M(fv)-ev)/ev, 4)} > 1e-6)")
        if rw > 1:
            raise Violation("w:accuracy-regular", f"w({x!r}, {t!r}) = {fw!r}, exact W = {mp.nstr(ew, 17)} (rel err {mp.nstr(abs(M(fw)-ew)/ew, 4)} > 1e-6)")
        return "reg"
    rv = abs(M(fv) - ev) / (M("0.02") * ev)
    rw = abs(M(fw) - ew) / (M("0.02") * ew)
    if ctx:
        ctx.maxi("v_asymptotic_err/2%V", rv)
        ctx.maxi("w_asymptotic_err/2%W", rw)
    if rv > 1:
        raise Violation("v:accuracy-asymptotic", f"v({x!r}, {t!r}) = {fv!r}, exact V = {mp.nstr(ev, 17)} (> 2 %)")
    if rw > 1:
        raise Violation("w:accuracy-asymptotic", f"w({x!r}, {t!r}) = {fw!r}, exact W = {mp.nstr(ew, 17)} (> 2 %)")
    return "asym"


def check_tie_point(x, t, ctx=None, given=None):
    _, _, _, vt, wt = funcs()
    if given is not None:
        fv, fw = given
        if isinstance(fv, str) or isinstance(fw, str):
            raise Violation("vtwt:raised", f"vt/wt({x!r}, {t!r}): {fv!r} / {fw!r}")
    else:
        try:
            fv = vt(x, t)
            fw = wt(x, t)
        except Exception as e:  # noqa: BLE001
            raise Violation("vtwt:raised", f"vt/wt({x!r}, {t!r}) raised {type(e).__name__}: {e}") from None
    _fin("vt", fv, x, t)
    _fin("wt", fw, x, t)
    slack = 1e-13 / t
    if not (-slack <= fw <= 1 + slack):
        raise Violation("wt:range", f"wt({x!r}, {t!r}) = {fw!r} outside [0, 1] +- {slack:.3g}")
    X, T = M(x), M(t)
    ev = gauss.Vt(X, T)
    ew = gauss.Wt(X, T)
    rv = abs(M(fv) - ev) / (2 * T)
    rw = abs(M(fw) - ew) / (20 * T + M("1e-13") / T)
    if ctx:
        ctx.maxi("vt_err/2t", rv)
        ctx.maxi("wt_err/(20t+1e-13/t)", rw)
    if rv > 1:
        raise Violation("vt:accuracy", f"vt({x!r}, {t!r}) = {fv!r}, exact V~ = {mp.nstr(ev, 17)}: off by {mp.nstr(abs(M(fv)-ev), 4)} > 2t")
    if rw > 1:
        raise Violation("wt:accuracy", f"wt({x!r}, {t!r}) = {fw!r}, exact W~ = {mp.nstr(ew, 17)}: off by {mp.nstr(abs(M(fw)-ew), 4)} > 20t + 1e-13/t")


def check_phi_point(x, ctx=None, given=None):
    phi_major = funcs()[0]
    if given is not None:
        f = given
        if isinstance(f, str):
            raise Violation("phi:raised", f"phi_major({x!r}): {f!r}")
    else:
        try:
            f = phi_major(x)
        except Exception as e:  # noqa: BLE001
            raise Violation("phi:raised", f"phi_major({x!r}) raised {type(e).__name__}: {e}") from None
    _fin("phi_major", f, x, None)
    e = gauss.Phi(M(x))
    r = abs(M(f) - e) / (M("1e-12") * e)
    if ctx:
        ctx.maxi("phi_rel_err/1e-12", r)
    if r > 1:
        raise Violation("phi:accuracy", f"phi_major({x!r}) = {f!r}, exact Phi = {mp.nstr(e, 17)} (rel err {mp.nstr(abs(M(f)-e)/e, 4)} > 1e-12)")


# ------------------------------------------------------------------------------------------------
# thresholds (exact locations; the implementation's float guards sit within a few ulps of them)
# ------------------------------------------------------------------------------------------------
def band_threshold(t, level):
    """|x| with Phi(t-|x|) - Phi(-t-|x|) == level, or None when the band mass at x = 0 is already below it."""
    T = M(t)
    lv = M(level)
    if gauss.band(M(0), T) <= lv:
        return None
    lo, hi = M(0), M(60)
    for _ in range(120):
        mid = (lo + hi) / 2
        if gauss.band(mid, T) > lv:
            lo = mid
        else:
            hi = mid
    return float(lo)


def walk(center, k):
    pts = [center]
    a = b = center
    for _ in range(k):
        a = math.nextafter(a, -math.inf)
        b = math.nextafter(b, math.inf)
        pts += [a, b]
    return pts


def near_threshold(x, t):
    if abs((x - t) - ZV) < 1e-3:
        return True
    for lv in (FEPS, 1e-5):
        th = band_threshold(t, lv)
        if th is not None and abs(abs(x) - th) < 1e-3:
            return True
    return False


# ------------------------------------------------------------------------------------------------
# clauses
# ------------------------------------------------------------------------------------------------
def check_points(case, ctx):
    x, t = case["x"], case["t"]
    br = check_vw_point(x, t, ctx)
    check_tie_point(x, t, ctx)
    ctx.called(4)
    ctx.label("vw-branch:" + br)
    band = 5.0 <= abs(x) <= 8.3
    if band:
        ctx.label("|x| in [5,8.3]")
    nt = band or abs((x - t) - ZV) < 1e-3 or abs(x) < 1e-300
    ctx.nontrivial_if(nt)


def check_walk(case, ctx):
    """Exhaustive +-k ulp neighbourhood of one branch threshold for one t."""
    t, which, k = case["t"], case["which"], case["k"]
    if which == "vw-guard":
        centers = [ZV + t]
    elif which == "wt-guard":
        th = band_threshold(t, FEPS)
        centers = [th, -th]
    elif which == "vt-guard":
        th = band_threshold(t, 1e-5)
        if th is None:
            ctx.exclude("vt-guard-does-not-exist-for-this-t")
            centers = []
        else:
            centers = [th, -th]
    elif which == "zero":
        centers = [0.0, -0.0, 5e-324, -5e-324, 2.2250738585072014e-308, -2.2250738585072014e-308]
        k = 0
    elif which == "pdf-underflow":
        centers = [38.56, -38.56, 38.6 + t, -38.6 - t, X_MAX, -X_MAX]
    else:
        raise KeyError(which)
    n = 0
    for c in centers:
        for x in walk(c, k):
            if abs(x) > X_MAX:
                continue
            check_vw_point(x, t, ctx)
            check_tie_point(x, t, ctx)
            n += 1
    ctx.called(4 * n)
    ctx.enumerated("ulp-walk points (" + which + ")", n)
    ctx.label("walk:" + which)
    ctx.nontrivial_if(n > 0)


def check_phi(case, ctx):
    if case.get("walk"):
        n = 0
        for x in walk(case["x"], case["walk"]):
            if -37.5 <= x <= 38.0:
                check_phi_point(x, ctx)
                n += 1
        ctx.called(n)
        ctx.enumerated("phi ulp-walk points", n)
        ctx.nontrivial_if(n > 1)
    else:
        check_phi_point(case["x"], ctx)
        ctx.called()
        ctx.nontrivial_if(case["x"] < -5.0)
        if case["x"] < -5.0:
            ctx.label("lower-tail")


def check_far(case, ctx):
    """Beyond the swept interval the statement still promises finite values in range ('for every finite x')."""
    x, t = case["x"], case["t"]
    _, v, w, vt, wt = funcs()
    try:
        vals = {"v": v(x, t), "w": w(x, t), "vt": vt(x, t), "wt": wt(x, t)}
    except Exception as e:  # noqa: BLE001
        raise Violation("far:raised", f"v/w/vt/wt({x!r}, {t!r}) raised {type(e).__name__}: {e}") from None
    ctx.called(4)
    for name, val in vals.items():
        _fin(name, val, x, t)
    slack = 1e-13 / t
    if vals["v"] < 0:
        raise Violation("far:v-negative", f"v({x!r}, {t!r}) = {vals['v']!r}")
    for name in ("w", "wt"):
        if not (-slack <= vals[name] <= 1 + slack):
            raise Violation(f"far:{name}-range", f"{name}({x!r}, {t!r}) = {vals[name]!r}")
    ctx.label("x<0" if x < 0 else "x>0")
    ctx.nontrivial_if(abs(x) > 1e3)


@st.composite
def far_points(draw):
    mag = draw(st.one_of(st.floats(math.log10(40.0), 308.0).map(lambda u: 10.0 ** u), st.sampled_from([40.0, 1e3, 1e16, 1e154, 1.3407807929942597e154, 1e200, 1.7976931348623157e308])))
    return {"x": mag * draw(st.sampled_from([1.0, -1.0])), "t": draw(T_STRAT)}


def unif(lo, hi):
    # st.floats over a bounded range is close to uniform (measured), with some extra mass near 0 and at the bounds;
    # bounded st.integers is heavily biased to small values and must not be used for sweeps.
    return st.floats(lo, hi)


T_STRAT = st.one_of(
    st.floats(math.log10(T_LO), math.log10(T_HI)).map(lambda u: min(T_HI, max(T_LO, 10.0 ** u))),
    st.sampled_from([1e-8, 1e-7, 1e-6, 1e-5, 1.3e-5, 2e-5, 1e-4, 1e-3, 1e-2]),
)


@st.composite
def points(draw):
    t = draw(T_STRAT)
    mode = draw(st.integers(0, 9))
    if mode <= 2:
        x = draw(unif(-X_MAX, X_MAX))
    elif mode <= 5:
        x = draw(unif(-9.0, 9.0))
    elif mode == 6:
        x = draw(unif(-8.3, -5.0)) * draw(st.sampled_from([1.0, -1.0]))
    elif mode == 7:
        x = ZV + t + draw(unif(-1e-3, 1e-3))
    elif mode == 8:
        th = band_threshold(t, draw(st.sampled_from([FEPS, 1e-5])))
        x = (th if th is not None else 0.0) + draw(unif(-1e-3, 1e-3))
        x *= draw(st.sampled_from([1.0, -1.0]))
    elif draw(st.booleans()):
        # +-0.15 around the points where erfc / exp change regime far out in the tails (Phi -> smallest normal, Phi -> 0, pdf -> 0)
        x = (draw(st.sampled_from([37.519379347, 38.4754, 38.58, 26.5])) + draw(unif(-0.15, 0.15))) * draw(st.sampled_from([1.0, -1.0]))
    else:
        x = draw(st.sampled_from([0.0, -0.0, 5e-324, -5e-324, 1e-300, -1e-300, X_MAX, -X_MAX, 38.5, -38.5]))
    return {"x": max(-X_MAX, min(X_MAX, x)), "t": t}


@st.composite
def walks(draw):
    return {"t": draw(T_STRAT), "which": draw(st.sampled_from(["vw-guard", "wt-guard", "vt-guard", "zero", "pdf-underflow"])), "k": 64}


@st.composite
def phis(draw):
    mode = draw(st.integers(0, 9))
    if mode <= 4:
        return {"x": draw(unif(-37.5, 38.0))}
    if mode <= 7:
        return {"x": draw(unif(-37.5, -5.0))}
    return {"x": draw(st.sampled_from([-37.5, 0.0, -0.0, 8.3, -8.3, ZV, 38.0, -1.0, 1.0])), "walk": 64}


# ------------------------------------------------------------------------------------------------
# revisit: the first evaluations of a process, 40 000 / 200 000 other points, the first points again
# ------------------------------------------------------------------------------------------------
def run_revisit(spec, tag):
    import json
    import os
    import subprocess

    from vf.core import HarnessError

    here = os.path.dirname(os.path.dirname(os.path.dirname(os.path.abspath(__file__))))
    work = os.path.join(here, ".work", f"c17-revisit-{os.getpid()}-{tag}")
    os.makedirs(work, exist_ok=True)
    path = os.path.join(work, "spec.json")
    with open(path, "w") as f:
        json.dump(spec, f)
    try:
        p = subprocess.run([sys.executable, "-B", "-m", "vf.c17child", path], capture_output=True, text=True, timeout=1800)
    finally:
        try:
            os.remove(path)
            os.rmdir(work)
        except OSError:
            pass
    if p.returncode != 0:
        raise HarnessError(f"c17 child failed: {p.stderr[-2000:]}")
    return json.loads(p.stdout)


def check_revisit(spec, ctx, tag="replay"):
    out = run_revisit(spec, tag)
    for which, pts in (("first", spec["first"]), ("second", spec.get("second", []))):
        for (x, t), a, b in zip(pts, out[which], out[which + "_again"]):
            # C17 states accuracy, not repeatability: both the early and the late values the CHILD observed are judged by the ordinary
            # oracle (a difference between them is only recorded).  The second set was evaluated right after calls with the same numbers
            # in wrong types - Decimal, Fraction, str, None - that raised or not: they must not have left anything behind.
            if a != b:
                ctx.label("early-and-late-values-differ")
            for when, vals_ in (("early", a), (f"after {spec['K']} other evaluations", b)):
                try:
                    check_vw_point(x, t, None, given=(vals_[0], vals_[1]))
                    check_tie_point(x, t, None, given=(vals_[2], vals_[3]))
                    if abs(x) <= 37.5:
                        check_phi_point(x, None, given=vals_[4])
                except Violation as v:
                    pre = "revisit:" if when != "early" else ("after-failed-evaluation:" if which == "second" else "first-evaluation:")
                    raise Violation(pre + v.bucket, f"({when}) " + v.detail) from None
    ctx.called(2 * 5 * len(spec["first"]) + 5 * spec["K"])
    ctx.nontrivial_if(spec["K"] >= 33000)


def revisit_custom(ctx, seed, tier, shard, nshards, n):
    from hypothesis import HealthCheck, given, settings
    from hypothesis import seed as hseed

    specs = []
    K = 40000 if tier == "quick" else 200000

    @hseed(seed)
    @settings(max_examples=n + 1, database=None, deadline=None, suppress_health_check=list(HealthCheck))
    @given(st.lists(points(), min_size=3, max_size=12), st.integers(0, 2 ** 32 - 1))
    def collect(first, prng):
        pts = [[0.0, 1e-4 / math.sqrt(2 * 25.0 / 3 * 25.0 / 3 + 2 * (25.0 / 6) ** 2)]] + [[p["x"], p["t"]] for p in first]  # default v default first
        pts += [[0.0, 2.5e-5], [-2.5, 1e-4]]  # round numbers also in the set that is first asked for in wrong types
        half = max(1, len(pts) // 2)
        specs.append({"first": pts[:half], "second": pts[half:], "prng": prng, "K": K})

    collect()
    specs = specs[:n] if shard == 0 else specs[1:n + 1]
    for k, spec in enumerate(specs):
        ctx.begin(spec)
        try:
            check_revisit(spec, ctx, f"{shard}-{k}")
        except Violation as v:
            v.case = spec
            raise
        ctx.end()


PROPERTY = Property(
    pid="C17",
    clauses=[
        Clause(name="points", strategy=points(), check=check_points, quick=20000, thorough=500000,
               rule="(x, t) points; non-trivial = |x| in [5, 8.3] (cancellation band) or x - t within 1e-3 of the v/w guard or |x| < 1e-300"),
        Clause(name="threshold-ulp-walks", strategy=walks(), check=check_walk, quick=96, thorough=3200,
               rule="for one t, every float within +-64 ulps of one branch threshold (v/w guard, wt guard, vt guard, pdf underflow) or the zero/denormal set, "
                    "both signs; non-trivial = at least one point evaluated"),
        Clause(name="far-range", strategy=far_points(), check=check_far, quick=4000, thorough=60000,
               rule="|x| from 40 up to the largest double (log-uniform), both signs: finite values, v >= 0, w and wt in [0, 1]; non-trivial = |x| > 1000"),
        Clause(name="revisit-after-many", kind="custom", custom=revisit_custom, check=check_revisit, quick=32, thorough=128, shards_quick=16, shards_thorough=16,
               rule="one fresh child interpreter per case: 4-13 generated points (the default-v-default point first) are the first evaluations of v, w, vt, wt, "
                    "phi_major in the process; then 40 000 (quick) / 200 000 (thorough) evaluations at other points drawn from a Hypothesis-seeded PRNG; then the "
                    "first points again; every value the child observed, early and late, is judged by the ordinary accuracy oracle (C17 states accuracy, not repeatability: a mere "
                    "difference between early and late values is only recorded); non-trivial = at least 33 000 evaluations in between"),
        Clause(name="phi", strategy=phis(), check=check_phi, quick=6000, thorough=100000,
               rule="x in [-37.5, 38] (half of them in the lower tail) and +-64-ulp walks at -37.5, 0, +-8.3, the guard; non-trivial = x < -5 or a walk"),
    ],
    rule="(x, t): x uniform over [-40, 40] / [-9, 9] / the 5-8.3 band / 1e-3-neighbourhoods and exhaustive +-64-ulp walks of every branch threshold "
         "located exactly in mpmath, t log-uniform over [1e-8, 1e-2] plus decade points; each of v, w, vt, wt, phi_major compared with its exact "
         "50-digit value under exactly the statement's bounds; non-trivial = in the cancellation band / at a threshold / lower tail; distinct by SHA-1",
    assumptions=[
        "mpmath ncdf/npdf at 50 digits are exact for the purpose of 1e-12 comparisons",
        "x restricted to [-40, 40] and t to [1e-8, 1e-2] as in the property's quantifier",
        "a dense sweep, not an interval proof",
    ],
)
