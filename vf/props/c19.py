"""C19 — the five models differ only in their update rule (differential across the five copies)."""
from __future__ import annotations

import copy
import inspect
import operator
import re

from hypothesis import strategies as st

from vf import faults, gen
from vf.core import Clause, Property, Violation
from vf.league import TwinLeague, _twin_play
from vf.stateful import machine_factory, replayer
from vf.osk import KINDS, call_kwargs, classes, mk_model, mk_teams, rating_classes
from vf.predgen import pred_cases, pred_labels
from vf.props.c13 import run_fault

NAMES = {"PL": "PlackettLuce", "BTF": "BradleyTerryFull", "BTP": "BradleyTerryPart", "TMF": "ThurstoneMostellerFull", "TMP": "ThurstoneMostellerPart"}
MODS = {"PL": "plackett_luce", "BTF": "bradley_terry_full", "BTP": "bradley_terry_part", "TMF": "thurstone_mosteller_full", "TMP": "thurstone_mosteller_part"}
PROSE = {"PL": "Plackett-Luce", "BTF": "Bradley-Terry Full Pairing", "BTP": "Bradley-Terry Partial Pairing",
         "TMF": "Thurstone-Mosteller Full Pairing", "TMP": "Thurstone-Mosteller Partial Pairing"}


def normalise(text, kind):
    t = str(text)
    t = t.replace(MODS[kind], "<module>").replace(NAMES[kind], "<Model>").replace(PROSE[kind], "<model name>")
    return re.sub(r" at 0x[0-9a-f]+", "", t)


# ------------------------------------------------------------------------------------------------
def check_predictions(case, ctx):
    teams = case["teams"]
    outs = {}
    for kind in KINDS:
        cfg = dict(case["cfg"], kind=kind)
        m = mk_model(cfg)
        try:
            outs[kind] = (m.predict_win(mk_teams(m, teams)), m.predict_draw(mk_teams(m, teams)), m.predict_rank(mk_teams(m, teams)))
        except Exception as e:  # noqa: BLE001
            raise Violation(f"predict-raised:{kind}", f"{kind} prediction raised {e!r}") from None
        ctx.called(3)
    for lab in pred_labels(case):
        ctx.label(lab)
    ref = outs["PL"]
    for kind in KINDS[1:]:
        for name, a, b in zip(("predict_win", "predict_draw", "predict_rank"), ref, outs[kind]):
            if a != b:
                raise Violation(f"prediction-differs:{name}:{kind}", f"{name}: PL gives {a!r}, {kind} gives {b!r}")
    ctx.nontrivial_if(len(teams) >= 3)


# ------------------------------------------------------------------------------------------------
def check_verdicts(case, ctx):
    teams, call = case["teams"], case["call"]
    sizes = [len(t) for t in teams]
    sel = "ranks" if call.get("ranks") is not None else "scores" if call.get("scores") is not None else None
    foreign = faults.foreign_models()
    models = {k: mk_model(dict(case["cfg"], kind=k)) for k in KINDS}
    total = 0
    for op in ("rate", "predict_win", "predict_draw", "predict_rank"):
        # foreign:<kind> faults exist for four of the five classes each; compare on the common grammar + 'a foreign rating' generically
        fl = faults.enumerate_faults("PL", sizes, sel, op=op)
        for fault in fl:
            verdicts = {}
            for k in KINDS:
                f = dict(fault)
                if f["fault"].startswith("foreign:"):
                    other = f["fault"].split(":")[1]
                    if other == k:
                        f["fault"] = "foreign:" + ("PL" if k != "PL" else "BTF")
                v, detail = run_fault(models[k], op, teams, call_kwargs(call), f, foreign, k)
                verdicts[k] = (v, detail.split(":")[0] if v == "rejected" else "")
                ctx.called()
            total += 1
            if len(set(verdicts.values())) != 1:
                raise Violation(f"verdict-differs:{op}:{fault['site']}:{fault['fault'].split(':')[0]}",
                                f"{op} with fault {faults.describe(fault)}: verdicts {verdicts}")
    # the unfaulted call: same verdict too
    ok = {}
    for k in KINDS:
        try:
            models[k].rate(mk_teams(models[k], teams), **call_kwargs(call))
            ok[k] = "accepted"
        except Exception as e:  # noqa: BLE001
            ok[k] = type(e).__name__
    if len(set(ok.values())) != 1:
        raise Violation("verdict-differs:valid-call", f"rate({call}) verdicts {ok}")
    ctx.enumerated("fault x 5 classes", total * 5)
    ctx.nontrivial_if(True)
    ctx.label(f"n:{len(teams)}")


# ------------------------------------------------------------------------------------------------
# arbitrary (multi-fault) argument structures through all five classes
# ------------------------------------------------------------------------------------------------
SCALARS = ["none", "int", "float", "str", "true", "object", "empty-list", "empty-tuple", "dict"]


def _scalar(name):
    return {"none": None, "int": 21, "float": 2.5, "str": "x", "true": True, "object": object(), "empty-list": [], "empty-tuple": (), "dict": {"a": 1}}[name]


@st.composite
def arg_specs(draw):
    """JSON description of a possibly multiply malformed call."""
    player = st.one_of(st.just(["own"]), st.just(["own"]), st.just(["own"]), st.tuples(st.just("foreign"), st.integers(0, 3)).map(list),
                       st.tuples(st.just("scalar"), st.sampled_from(SCALARS)).map(list))
    team = st.one_of(
        st.tuples(st.just("list"), st.lists(player, min_size=0, max_size=3)).map(list),
        st.tuples(st.just("list"), st.lists(player, min_size=1, max_size=2)).map(list),
        st.tuples(st.just("tuple"), st.lists(player, min_size=0, max_size=2)).map(list),
        st.tuples(st.just("scalar"), st.sampled_from(SCALARS)).map(list))
    teams = draw(st.one_of(
        st.tuples(st.just("list"), st.lists(team, min_size=0, max_size=4)).map(list),
        st.tuples(st.just("list"), st.lists(team, min_size=2, max_size=3)).map(list),
        st.tuples(st.just("tuple"), st.lists(team, min_size=0, max_size=3)).map(list),
        st.tuples(st.just("scalar"), st.sampled_from(SCALARS)).map(list)))
    elem = st.one_of(st.integers(-2, 3), st.floats(-2.0, 2.0), st.booleans(), st.tuples(st.just("scalar"), st.sampled_from(SCALARS)).map(list))
    sel = st.one_of(st.none(), st.lists(elem, min_size=0, max_size=5), st.tuples(st.just("scalar"), st.sampled_from(SCALARS)).map(list),
                    st.tuples(st.just("tuple"), st.lists(st.integers(0, 3), min_size=1, max_size=3)).map(list))
    return {"op": draw(st.sampled_from(["rate", "rate", "predict_win", "predict_draw", "predict_rank"])), "teams": teams,
            "ranks": draw(sel), "scores": draw(st.one_of(st.none(), st.none(), sel))}


def _build(spec, model, others):
    tag = spec[0]
    if tag == "own":
        return model.rating(20.0, 5.0)
    if tag == "foreign":
        return others[spec[1]].rating(20.0, 5.0)
    if tag == "scalar":
        return _scalar(spec[1])
    items = [_build(x, model, others) for x in spec[1]]
    return items if tag == "list" else tuple(items)


def _build_sel(spec):
    if spec is None:
        return None
    if isinstance(spec, list) and spec and spec[0] == "scalar" and isinstance(spec[1], str):
        return _scalar(spec[1])
    if isinstance(spec, list) and spec and spec[0] == "tuple" and isinstance(spec[1], list):
        return tuple(spec[1])
    return [(_scalar(e[1]) if isinstance(e, list) else e) for e in spec]


def check_arg_verdicts(case, ctx):
    verdicts = {}
    cl = classes()
    for kind in KINDS:
        model = cl[kind]()
        others = [cl[k]() for k in KINDS if k != kind]
        teams = _build(case["teams"], model, others)
        kw = {}
        if case["op"] == "rate":
            for name in ("ranks", "scores"):
                v = _build_sel(case[name])
                if v is not None:
                    kw[name] = v
        try:
            getattr(model, case["op"])(teams, **kw)
            verdicts[kind] = "accepted"
        except Exception as e:  # noqa: BLE001
            verdicts[kind] = type(e).__name__
        ctx.called()
    if len(set(verdicts.values())) != 1:
        raise Violation("arg-verdict-differs:" + case["op"], f"{case['op']} with teams spec {case['teams']} ranks {case['ranks']} scores {case['scores']}: verdicts {verdicts}")
    v = verdicts["PL"]
    ctx.label("verdict:" + v, "op:" + case["op"])
    ctx.nontrivial_if(v != "accepted")


# ------------------------------------------------------------------------------------------------
def check_create_rating(case, ctx):
    """create_rating / rating() on arbitrary arguments: same outcome (values or exception class) in all five classes."""
    outcomes = {}
    cl = classes()
    for kind in KINDS:
        model = cl[kind]()
        others = [cl[k]() for k in KINDS if k != kind]
        arg = _build(case["arg"], model, others) if isinstance(case["arg"], list) and case["arg"] and case["arg"][0] in ("own", "foreign", "scalar", "list", "tuple") else case["arg"]
        if case["arg"] and isinstance(case["arg"], list) and case["arg"][0] == "numbers":
            arg = list(case["arg"][1])
        elif case["arg"] and isinstance(case["arg"], list) and case["arg"][0] == "numbers-tuple":
            arg = tuple(case["arg"][1])
        row = []
        for target in (model, cl[kind]):
            try:
                r = target.create_rating(arg, case["name"]) if case["give_name"] else target.create_rating(arg)
                row.append(("ok", repr(r.mu), repr(r.sigma), r.name, type(r).__name__.replace(NAMES[kind], "<Model>")))
            except Exception as e:  # noqa: BLE001
                row.append(type(e).__name__)
        try:
            r = model.rating(*case["rating_args"])
            row.append(("ok", repr(r.mu), repr(r.sigma), r.name))
        except Exception as e:  # noqa: BLE001
            row.append(type(e).__name__)
        outcomes[kind] = row
        ctx.called(3)
    if len(set(map(repr, outcomes.values()))) != 1:
        raise Violation("create-rating-outcome-differs", f"create_rating({case['arg']}, name={case['name']!r}) / rating{tuple(case['rating_args'])}: {outcomes}"[:900])
    ctx.label("outcome:" + (outcomes["PL"][0] if isinstance(outcomes["PL"][0], str) else "ok"))
    ctx.nontrivial_if(isinstance(outcomes["PL"][0], str))


@st.composite
def create_cases(draw):
    num = st.one_of(st.integers(-5, 30), st.floats(-5.0, 30.0), st.booleans(), st.sampled_from([0, 0.0, -0.0]))
    bad = st.sampled_from([None, "x", [1], (1,), {"a": 1}, 1j])
    arg = draw(st.one_of(
        st.tuples(st.just("numbers"), st.lists(num, min_size=2, max_size=2)).map(list),
        st.tuples(st.just("numbers"), st.lists(num, min_size=0, max_size=4)).map(list),
        st.tuples(st.just("numbers-tuple"), st.lists(num, min_size=2, max_size=2)).map(list),
        st.tuples(st.just("numbers"), st.tuples(num, bad).map(list)).map(list),
        st.tuples(st.just("numbers"), st.tuples(bad, num).map(list)).map(list),
        st.just(["own"]), st.tuples(st.just("foreign"), st.integers(0, 3)).map(list),
        st.tuples(st.just("scalar"), st.sampled_from(["none", "int", "float", "str", "dict", "empty-list", "object"])).map(list)))
    return {"arg": arg, "name": draw(st.one_of(st.none(), st.text(max_size=4))), "give_name": draw(st.booleans()),
            "rating_args": draw(st.lists(st.one_of(st.none(), num), min_size=0, max_size=2)) + ([draw(st.one_of(st.none(), st.text(max_size=3)))] if draw(st.booleans()) else [])}


# ------------------------------------------------------------------------------------------------
def surface_custom(ctx, seed, tier, shard, nshards, n):
    """Deterministic, exhaustive: public surface of the five classes (signatures, attribute names), MODELS registry."""
    import openskill.models as om

    cl = classes()
    rc = rating_classes()
    ctx.begin({"what": "public surface of the five model classes and rating classes"})
    if list(om.MODELS) != [cl[k] for k in ("PL", "BTF", "BTP", "TMF", "TMP")] and set(om.MODELS) != set(cl.values()) or len(om.MODELS) != 5:
        raise Violation("MODELS-registry", f"openskill.models.MODELS = {om.MODELS!r}")
    grid = 0

    def sig(fn, kind):
        s = inspect.signature(fn)
        parts = []
        for p in s.parameters.values():
            d = p.default
            dd = "<empty>" if d is inspect.Parameter.empty else (getattr(d, "__name__", None) or repr(d))
            parts.append((p.name, str(p.kind), normalise(dd, kind), normalise(p.annotation, kind)))
        return parts, normalise(s.return_annotation, kind)

    for label, table in (("model", cl), ("rating", rc)):
        names = {k: sorted(normalise(a, k) for a in dir(c) if not a.startswith("_")) for k, c in table.items()}
        if len(set(map(tuple, names.values()))) != 1:
            raise Violation(f"surface:{label}-public-names", f"public attribute names differ: {names}")
        dunders = {k: sorted(a for a in vars(c) if a.startswith("__") and a not in ("__doc__", "__module__", "__dict__", "__weakref__", "__annotations__",
                                                                                        "__firstlineno__", "__static_attributes__", "__qualname__"))
                   for k, c in table.items()}
        if len(set(map(tuple, dunders.values()))) != 1:
            raise Violation(f"surface:{label}-special-methods", f"special methods differ: {dunders}")
        methods = sorted(set(names["PL"]) | set(dunders["PL"]))
        for mname in methods:
            sigs = {}
            for k, c in table.items():
                attr = getattr(c, mname.replace("<Model>", NAMES[k]), None)
                if attr is None or not callable(attr):
                    continue
                try:
                    sigs[k] = sig(attr, k)
                except (TypeError, ValueError):
                    sigs[k] = "<no signature>"
                grid += 1
            if len(set(map(repr, sigs.values()))) > 1:
                raise Violation(f"surface:{label}-signature:{mname}", f"signatures of {mname} differ: {sigs}")
    inst = {k: sorted(normalise(a, k) for a in vars(c())) for k, c in cl.items()}
    if len(set(map(tuple, inst.values()))) != 1:
        raise Violation("surface:instance-attributes", f"{inst}")
    defaults = {k: {normalise(a, k): (v if not callable(v) else "<callable>") for a, v in vars(c()).items()} for k, c in cl.items()}
    if len(set(map(repr, defaults.values()))) != 1:
        raise Violation("surface:default-parameters", f"{defaults}")
    rinst = {k: sorted(vars(c(1.0, 2.0))) for k, c in rc.items()}
    if len(set(map(tuple, rinst.values()))) != 1:
        raise Violation("surface:rating-instance-attributes", f"{rinst}")
    ctx.enumerated("method x class signature grid", grid)
    ctx.called(grid)
    ctx.nontrivial_if(True)
    ctx.end()
    # second distinct "case": repr/str shapes agree after normalisation
    ctx.begin({"what": "repr/str of models and ratings after normalising the class name"})
    reps = {k: (normalise(repr(c()), k), normalise(str(c()), k)) for k, c in cl.items()}
    if len(set(reps.values())) != 1:
        raise Violation("surface:model-repr", f"{reps}")
    rreps = {}
    for k, c in rc.items():
        r = c(1.5, 2.5, "n")
        r.id = "x"
        r2 = c(1.5, 2.5)
        r2.id = "x"
        rreps[k] = (normalise(repr(r), k), normalise(str(r), k), normalise(str(r2), k))
    if len(set(rreps.values())) != 1:
        raise Violation("surface:rating-repr", f"{rreps}")
    ctx.nontrivial_if(True)
    ctx.end()


# ------------------------------------------------------------------------------------------------
ORDER_OPS = [("<", operator.lt), ("<=", operator.le), (">", operator.gt), (">=", operator.ge), ("==", operator.eq), ("!=", operator.ne)]


def check_rating_objects(case, ctx):
    (m1, s1), (m2, s2) = case["a"], case["b"]
    name = case["name"]
    tables = {}
    for k, c in rating_classes().items():
        a, b = c(m1, s1, name), c(m2, s2)
        row = []
        for _, op in ORDER_OPS:
            for x, y in ((a, b), (b, a), (a, a)):
                try:
                    row.append(op(x, y))
                except Exception as e:  # noqa: BLE001
                    row.append(type(e).__name__)
        for other in (None, 3, "s", (m1, s1)):
            for _, op in ORDER_OPS:
                try:
                    row.append(op(a, other))
                except Exception as e:  # noqa: BLE001
                    row.append(type(e).__name__)
        row.append(a.ordinal() if isinstance(a.mu, (int, float)) else None)
        row.append(a.ordinal(case["z"]))
        # hash rule
        try:
            row.append(hash(a) == hash((a.id, a.mu, a.sigma)))
            a2 = c(m1, s1)
            a2.id = a.id
            row.append(hash(a2) == hash(a))
        except Exception as e:  # noqa: BLE001
            row.append(type(e).__name__)
        # copy rule
        d = copy.deepcopy(a)
        row.append((d is not a, d.id == a.id, d.name == a.name, d.mu == a.mu, d.sigma == a.sigma, type(d) is type(a)))
        sh = copy.copy(a)
        row.append((sh is not a, sh.id == a.id, sh.name == a.name, sh.mu == a.mu, sh.sigma == a.sigma))
        nested = copy.deepcopy([[a, b], [a]])
        row.append((nested[0][0] is not a, nested[0][0].id == a.id, nested[0][1].id == b.id, nested[0][0] is nested[1][0]))
        tables[k] = row
        ctx.called()
    ref = tables["PL"]
    for k in KINDS[1:]:
        if tables[k] != ref:
            idx = next(i for i, (x, y) in enumerate(zip(ref, tables[k])) if x != y)
            raise Violation(f"rating-objects-differ:{k}", f"ratings ({m1!r},{s1!r}) / ({m2!r},{s2!r}): entry {idx} of the behaviour table: PL {ref[idx]!r}, {k} {tables[k][idx]!r}")
    ctx.nontrivial_if((m1 - 3.0 * s1) == (m2 - 3.0 * s2) or (m1, s1) == (m2, s2))


@st.composite
def rating_cases(draw):
    from vf.props.c18 import pair_cases

    c = draw(pair_cases())
    c["name"] = draw(st.one_of(st.none(), st.text(max_size=6)))
    return c


# ------------------------------------------------------------------------------------------------
def check_btp_btf(case, ctx):
    teams, call = case["teams"], case["call"]
    outs = {}
    for kind in ("BTF", "BTP"):
        cfg = dict(case["cfg"], kind=kind)
        m = mk_model(cfg)
        try:
            r = m.rate(mk_teams(m, teams), **call_kwargs(call))
        except Exception as e:  # noqa: BLE001
            raise Violation(f"raised:{kind}", f"{kind} rate({call}) raised {e!r}") from None
        outs[kind] = [[(p.mu, p.sigma) for p in t] for t in r]
        ctx.called()
    if outs["BTF"] != outs["BTP"]:
        raise Violation("btp-differs-from-btf-on-two-teams", f"call={call} cfg gamma={case['cfg']['gamma']}: BTF {outs['BTF']!r} vs BTP {outs['BTP']!r}"[:900])
    cl = case["classes"]
    ctx.label(gen.tie_shape(cl), "gamma:" + case["cfg"]["gamma"])
    ctx.nontrivial_if(len(set(cl)) == 1 or call.get("limit_sigma") is not None)


class BTTwin(TwinLeague):
    """Side A is a BradleyTerryFull league, side B a BradleyTerryPart league with the same parameters; every game has two teams."""
    WHAT = "btp-vs-btf"
    KINDS = ["BTF"]

    def make_models(self, first):
        from vf import failing

        m, self.trip = failing.tripwire_model(dict(self.cfg, kind="BTP"))
        return [mk_model(dict(self.cfg, kind="BTF")), m]

    def side_calls(self, step):
        call = dict(step["frag"], **{k: v for k, v in step["opts"].items() if v is not None})
        return [(self.models[0], call), (self.models[1], call)]

    @classmethod
    def extra_step(cls, draw, h, n, classes):
        frag, _ = draw(gen.encodings(classes))
        return {"frag": frag, "opts": draw(gen.call_options(h.cfg))}


def _bt_fail(h):
    from vf import failing

    return failing.failing_specs(dict(h.cfg, kind="BTP"))


BTTwin.RULES = {"play_two": _twin_play(2, 2), "failed_call_on_side_b": _bt_fail}


PROPERTY = Property(
    pid="C19",
    clauses=[
        Clause(name="predictions-identical", strategy=pred_cases(kinds=["PL"]), check=check_predictions, quick=3000, thorough=60000,
               rule="value-equal teams and equal parameters through all five classes; the three predictions compared bit for bit; non-trivial = >= 3 teams"),
        Clause(name="verdicts-identical", strategy=gen.games(kinds=["PL"], max_teams=4, max_size=2), check=check_verdicts, quick=160, thorough=3000,
               rule="every case of the C13 fault grammar through all five classes: same verdict (accepted / exception class)"),
        Clause(name="argument-verdicts", strategy=arg_specs(), check=check_arg_verdicts, quick=6000, thorough=100000,
               rule="arbitrary, possibly MULTIPLY malformed argument structures (0-4 teams of 0-3 own / foreign / non-rating players, wrong containers at each "
                    "level, ranks / scores valid, garbage, wrong length, both) through all five classes: same verdict (accepted / exception class); "
                    "non-trivial = the call is rejected"),
        Clause(name="create-rating-outcomes", strategy=create_cases(), check=check_create_rating, quick=4000, thorough=60000,
               rule="create_rating (instance and class) and rating() on valid and malformed arguments (wrong length, tuple, non-numbers, own / foreign rating "
                    "objects, scalars) through all five classes: same values or same exception class; non-trivial = the argument is rejected"),
        Clause(name="public-surface", kind="custom", custom=surface_custom, quick=1, thorough=1, shards_quick=1, shards_thorough=1,
               rule="exhaustive: inspect.signature of every public and special method of the five model and five rating classes after normalising the class's "
                    "own names; public attribute names; constructor defaults; repr/str; MODELS registry"),
        Clause(name="rating-objects", strategy=rating_cases(), check=check_rating_objects, quick=4000, thorough=60000,
               rule="comparison truth tables (incl. foreign operands), ordinal, hash rule, copy / deepcopy behaviour identical across the five rating classes; "
                    "non-trivial = equal ordinals or equal values"),
        Clause(name="btp-equals-btf-on-two-teams", strategy=gen.games(kinds=["BTF"], max_teams=2), check=check_btp_btf, quick=3000, thorough=60000,
               rule="two-team games, all outcomes / options / gammas: BradleyTerryPart == BradleyTerryFull bit for bit; non-trivial = a tie or a per-call limit_sigma"),
        Clause(name="btp-btf-twin-leagues", kind="stateful", machine=machine_factory(BTTwin), check=replayer(BTTwin),
               quick=320, thorough=6000, steps_quick=25, steps_thorough=100,
               rule="rule-based machine: a BradleyTerryFull league and a BradleyTerryPart league with equal parameters play the same two-team games "
                    "(any outcome encoding, per-call options, rating objects fed back); all (mu, sigma) identical after every game; "
                    "non-trivial = >= 6 games with some player in >= 3"),
    ],
    rule="differential across the five copies on value-equal inputs: predictions bit-identical; identical accept/reject verdicts over the whole C13 grammar; identical "
         "public surface (exhaustive); identical rating-object behaviour; BT-part == BT-full on two teams; distinct by SHA-1",
    assumptions=["class-specific names are normalised before signatures / reprs are compared"],
)

from vf import opt as _opt  # noqa: E402

PROPERTY.clauses.append(_opt.optimised("C19", next(c for c in PROPERTY.clauses if c.name == "argument-verdicts"), quick=160, thorough=1600))
PROPERTY.clauses.append(_opt.optimised("C19", next(c for c in PROPERTY.clauses if c.name == "rating-objects"), quick=160, thorough=1600))
