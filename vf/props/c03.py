"""C03 — outcomes are ordinal: only order and equality of ranks / scores matter (DESIGN.md section 5, C03)."""
from __future__ import annotations

from hypothesis import strategies as st

from vf import gen
from vf.budget import Budget, compare_equal
from vf.core import Clause, Property, Violation
from vf.league import TwinLeague, twin_class
from vf.osk import eff_tau, guarded, mk_model, mk_teams, rate_values, vals
from vf.stateful import machine_factory, replayer


def _first_diff(a, b):
    for i, (ta, tb) in enumerate(zip(a, b)):
        for j, (pa, pb) in enumerate(zip(ta, tb)):
            if pa != pb:
                return f"player {i},{j}: {pa!r} != {pb!r}"
    return "shapes differ"


def enc_nontrivial(frag):
    vals = frag.get("ranks") if "ranks" in frag else frag.get("scores")
    if vals is None:
        return False
    return any(isinstance(v, (float, bool)) or abs(v) > 2 ** 53 for v in vals)


def check_encodings(case, ctx):
    cfg, teams, classes, opts = case["cfg"], case["teams"], case["classes"], case["opts"]
    for lab in gen.game_labels({"teams": teams, "classes": classes, "cfg": cfg, "meta": {"enc": "set", "regime": case["meta"]["regime"]}}):
        ctx.label(lab)
    canon = rate_values(cfg, teams, dict(opts, ranks=list(classes)), ctx)
    nt = False
    for frag, kind in case["encodings"]:
        ctx.label("enc:" + kind)
        if frag and case.get("number_types"):
            frag = dict(frag, number_types=case["number_types"])
            ctx.label("number-types:" + case["number_types"])
        pre = {"prelude": dict(case["mirror"])} if case.get("mirror") and frag else {}
        if pre:
            # the same call was made once before, through the same model, with ONE rank / score replaced by a Decimal or Fraction of exactly
            # that value (rejected): a table keyed by the outcome values must not have been poisoned for the proper call (osk.model_for)
            ctx.label("mirror-prelude")
        res = rate_values(cfg, teams, dict(opts, **frag, **pre), ctx)
        if res != canon:
            raise Violation("enc:" + kind, f"{cfg['kind']} classes={classes} encoding {frag!r} differs from ranks={classes}: {_first_diff(res, canon)}")
        if enc_nontrivial(frag) and (len(set(classes)) < len(classes) or classes != sorted(classes)):
            nt = True
    # the caller keeps ONE list object: rated, rated again, and only then negated into the other selector.  (Every comparison above
    # hands the library a freshly built list; a library that reorders or rewrites the list it was given is invisible to them.)
    for frag, kind in case["encodings"]:
        key = "ranks" if "ranks" in frag else "scores" if "scores" in frag else None
        if key is None:
            continue
        kept = list(frag[key])

        def run(k, lst):
            m = mk_model(cfg)
            kw = {o: v for o, v in opts.items() if v is not None}
            kw[k] = lst
            ctx.called()
            return vals(guarded(m.rate, mk_teams(m, teams), what="rate", **kw))

        first = run(key, kept)
        again = run(key, kept)
        if again != first or first != canon:
            raise Violation("same-list-object-rated-twice", f"{cfg['kind']} {key}={frag[key]!r} (list now {kept!r}): the second call with the SAME list object differs: "
                                                            f"{_first_diff(again, first if again != first else canon)}")
        other = "scores" if key == "ranks" else "ranks"
        neg = run(other, [-v for v in kept])
        if neg != first:
            raise Violation("negated-after-the-call", f"{cfg['kind']} {key}={frag[key]!r}: {other} built by negating the caller's list AFTER the call (list now {kept!r}) "
                                                      f"differ: {_first_diff(neg, first)}")
        ctx.label("kept-list:" + key)
        break
    ctx.nontrivial_if(nt)


def check_tie_anchor(case, ctx):
    """Identical teams that are tied must end identical (PL / full pairing): anchors 'tied exactly when values compare equal'
    for mixed-type equal values, independently of the canonical encoding."""
    cfg, teams, call = case["cfg"], case["teams"], case["call"]
    kind = cfg["kind"]
    vals = call["ranks"]
    res = rate_values(cfg, teams, call, ctx)
    n = len(teams)
    bud = Budget(kind, teams, vals, cfg["beta"], cfg["kappa"], eff_tau(cfg, call))
    if bud.near_boundary:
        ctx.exclude("branch-boundary")
        return
    pairs = 0
    typed = False
    for i in range(n):
        for k in range(i + 1, n):
            if vals[i] == vals[k] and teams[i] == teams[k]:
                pairs += 1
                if type(vals[i]) is not type(vals[k]):
                    typed = True
                # compare team k's result against team i's, using i's budget
                a = [res[i]]
                b = [res[k]]
                sub = Budget(kind, teams, vals, cfg["beta"], cfg["kappa"], eff_tau(cfg, call))
                # shift the budget's team index: compare_equal indexes from 0, so build a view
                sub.infl = [sub.infl[i]]
                sub.tvar = [sub.tvar[i]]
                sub.S = [max(sub.S[i], sub.S[k])]
                sub.B_om = [max(sub.B_om[i], sub.B_om[k])]
                sub.B_de_rel = [max(sub.B_de_rel[i], sub.B_de_rel[k])]
                worst, bad = compare_equal(sub, a, b, cfg, teams, f"tied identical teams {i} and {k} (values {vals[i]!r}, {vals[k]!r})")
                ctx.maxi("tie-anchor diff/budget", worst)
                if bad:
                    raise Violation("tie-anchor:" + ("mixed-type" if type(vals[i]) is not type(vals[k]) else "same-type"), f"{kind} ranks={vals}: {bad}")
    ctx.label(f"tied-identical-pairs:{min(pairs, 3)}")
    ctx.nontrivial_if(typed)


def check_omitted(case, ctx):
    """omitting ranks == ranks=[0..n-1] == scores=[n-1..0] (and float / relabelled versions), whatever the options are"""
    cfg, teams, opts = case["cfg"], case["teams"], case["opts"]
    n = len(teams)
    base = rate_values(cfg, teams, dict(opts), ctx)
    variants = {
        "ranks=range(n)": {"ranks": list(range(n))},
        "ranks=float range": {"ranks": [float(i) for i in range(n)]},
        "ranks shifted": {"ranks": [i - 2 for i in range(n)]},
        "scores descending": {"scores": [n - 1 - i for i in range(n)]},
        "scores descending float": {"scores": [(n - i) * 0.5 for i in range(n)]},
    }
    for name, frag in variants.items():
        res = rate_values(cfg, teams, dict(opts, **frag), ctx)
        if res != base:
            raise Violation("omitted-vs-" + name.split("=")[0].split()[0], f"{cfg['kind']} opts={opts}: omitting ranks differs from {name} ({frag}): {_first_diff(res, base)}")
    binding = bool(opts.get("limit_sigma") or (opts.get("limit_sigma") is None and cfg["limit_sigma"])) and \
        any(r[1] == p[1] for tr, t in zip(base, teams) for r, p in zip(tr, t))
    ctx.label("kind:" + cfg["kind"], "limit-binding" if binding else "limit-not-binding")
    ctx.nontrivial_if(binding or opts.get("tau") is not None)


@st.composite
def omitted_cases(draw):
    cfg = draw(gen.configs())
    beta = cfg["beta"]
    sizes = draw(gen.shapes(max_teams=6, max_size=4))
    teams, regime, _ = draw(gen.team_values(cfg, sizes, regimes=["generic", "targeted", "identical", "team_corner"]))
    if draw(st.booleans()):
        # settled players: small sigma, so that the tau inflation outweighs the information of the game and limit_sigma binds
        for t in teams:
            for p in t:
                p[1] = draw(st.sampled_from([1e-3, 0.01, 0.1])) * beta
    opts = {}
    lim = draw(st.sampled_from([None, True, True, False]))
    if lim is not None:
        opts["limit_sigma"] = lim
    tau = draw(st.sampled_from([None, 0.0, beta / 50.0, 2.0 * beta]))
    if tau is not None:
        opts["tau"] = tau
    return {"cfg": cfg, "teams": teams, "opts": opts, "meta": {"regime": regime}}


@st.composite
def enc_cases(draw):
    tiny = draw(st.integers(0, 3)) == 0
    if tiny:
        # small games with small integer ranks / scores (what users actually pass: scores [1, 2], [1, 1], ranks [-1, 0] ...):
        # the same few value tuples recur across cases of one process, next to tuples that differ only in their tie structure
        g = draw(gen.games(options=False, enc_kinds=["int"], max_teams=3, max_size=2, cfg_kw={"scales": False, "gammas": ["default"]}))
        kinds = ["small_ints", "small_ints", "scores_small", "scores_small", "mixed"]
    else:
        g = draw(gen.games(options=True, enc_kinds=["int"]))
        kinds = ["int_relabel", "float", "mixed", "bool", "huge", "zero_neg", "small_ints", "half_grid", "half_grid", "close", "close", "runaway", "scores", "scores_small", "scores_float", "scores_huge", "scores_runaway", "omitted"]
    classes = g["classes"]
    encs = []
    k = draw(st.integers(3, 5))
    for _ in range(k):
        frag, kind = draw(gen.encodings(classes, kinds=kinds))
        encs.append([frag, kind])
    opts = {key: v for key, v in g["call"].items() if key in ("tau", "limit_sigma")}
    nt = draw(st.sampled_from([None, None, None, None, "int-subclass", "float-subclass", "both"]))
    out = {"cfg": g["cfg"], "teams": g["teams"], "classes": classes, "opts": opts, "encodings": encs, "meta": g["meta"], "number_types": nt}
    if draw(st.integers(0, 3)) == 0:
        out["mirror"] = {"op": "fail", "kind": "mirror", "what": "outcome", "as": draw(st.sampled_from(["decimal", "fraction"])), "idx": draw(st.integers(0, 7))}
    return out


@st.composite
def anchor_cases(draw):
    cfg = draw(gen.configs(kinds=["PL", "BTF", "TMF"]))
    sizes = draw(gen.shapes(max_teams=6, max_size=4))
    teams, regime, _ = draw(gen.team_values(cfg, sizes, regimes=["identical", "generic"]))
    n = len(teams)
    if regime == "generic":
        # copy one team onto another so that there is an identical pair among arbitrary others
        i = draw(st.integers(0, n - 1))
        k = draw(st.integers(0, n - 2))
        k = k + 1 if k >= i else k
        teams[k] = [list(p) for p in teams[i]]
    classes = draw(gen.weak_orders(n, shapes_=("free", "all", "onetie")))
    frag, enc = draw(gen.encodings(classes, kinds=["mixed", "mixed", "float", "int"]))
    return {"cfg": cfg, "teams": teams, "call": frag, "classes": classes, "meta": {"regime": regime, "enc": enc}}


class _EncodingTwin(TwinLeague):
    """Side A is told every outcome as ranks = dense tie classes, side B in a drawn encoding of the same weak order."""
    WHAT = "encoding"

    def side_calls(self, step):
        opts = {k: v for k, v in step["opts"].items() if v is not None}
        return [(self.models[0], dict(opts, ranks=list(step["classes"]))), (self.models[1], dict(opts, **step["frag"]))]

    @classmethod
    def extra_step(cls, draw, h, n, classes):
        frag, kind = draw(gen.encodings(classes))
        out = {"frag": frag, "enc": kind, "opts": draw(gen.call_options(h.cfg))}
        if frag and draw(st.integers(0, 9)) == 0:
            out["frag"] = dict(frag, number_types=draw(st.sampled_from(["int-subclass", "float-subclass", "both"])))
        return out


EncodingTwin = twin_class(_EncodingTwin, "EncodingTwin")

def _svc_recurring(data, cfg):
    """pairs of rate() jobs on one line-up: outcome as ranks = dense classes / as a drawn encoding of the same weak order"""
    from vf import service

    jobs = []
    for t in service.lineups(data, cfg, k=6):
        classes = data.draw(gen.weak_orders(len(t)))
        frag, _ = data.draw(gen.encodings(classes, kinds=["scores", "scores_small", "scores_float", "float", "int_relabel", "small_ints", "half_grid"]))
        jobs.append({"op": "rate", "teams": t, "call": {"ranks": list(classes)}})
        jobs.append({"op": "rate", "teams": t, "call": dict(frag)})
    return jobs


def _svc_judge(spec, out, ctx):
    kind = spec["cfg"]["kind"]
    rec = spec["recurring"]
    for when in ("first", "last"):
        for k in range(0, len(rec), 2):
            a, b = out[when][k], out[when][k + 1]
            if a != b:
                raise Violation(f"service:{when}:encodings-differ",
                                f"{kind}: {'as first calls of the process' if when == 'first' else 'after ' + str(out['fillers']) + ' other calls through the same model'}, "
                                f"rate with {rec[k]['call']} and with {rec[k + 1]['call']} (the same weak order) differ: {a!r} vs {b!r}"[:1200])


def _svc(i):
    from vf import service

    if not hasattr(_svc, "fns"):
        _svc.fns = service.make_clause_functions(_svc_recurring, _svc_judge)
    return _svc.fns[i]


PROPERTY = Property(
    pid="C03",
    clauses=[
        Clause(name="long-running-service", kind="custom", custom=lambda *a: _svc(0)(*a), check=lambda *a: _svc(1)(*a), quick=48, thorough=128, shards_quick=16, shards_thorough=16,
               rule="one fresh child interpreter and ONE long-lived model per case: 9 recurring line-ups each rated under ranks = dense classes and under a drawn "
                    "encoding of the same weak order, first; then 9 000 (quick) / 70 000 (thorough) other calls with ever new line-ups and scorelines; then the "
                    "recurring pairs again: both encodings identical, early and late; non-trivial = at least 4 200 calls in between"),
        Clause(name="encodings-agree", strategy=enc_cases(), check=check_encodings, quick=5000, thorough=100000,
               rule="one game x one weak order x 3-5 drawn encodings (int relabelling, float, mixed int/float/bool/-0.0, bool, huge, zero/negative, scores, "
                    "float scores, omitted) each compared bit for bit with ranks = dense classes; non-trivial = an encoding with a float / bool / |v| > 2^53 "
                    "value on an order that has a tie or is not the identity"),
        Clause(name="omitted-equals-identity", strategy=omitted_cases(), check=check_omitted, quick=3000, thorough=50000,
               rule="ranks omitted vs ranks=[0..n-1] (int, float, shifted) vs scores=[n-1..0] under per-call tau / limit_sigma, half of the cases with settled "
                    "(small-sigma) players so that the clamp binds; non-trivial = the clamp binds or a per-call tau is given"),
        Clause(name="tie-anchor", strategy=anchor_cases(), check=check_tie_anchor, quick=3000, thorough=50000,
               rule="PL / full pairing: identical teams whose rank values compare equal end with equal posteriors (numerical budget); "
                    "non-trivial = the equal values have different Python types (1 vs 1.0, 0 vs -0.0 vs False)"),
        Clause(name="encoding-twin-leagues", kind="stateful", machine=machine_factory(EncodingTwin), check=replayer(EncodingTwin),
               quick=320, thorough=6000, steps_quick=25, steps_thorough=100,
               rule="rule-based machine: twin leagues of 4-10 rating objects play the same games (objects fed back); side A is told every outcome as "
                    "ranks = dense tie classes, side B in a drawn encoding of the same weak order (any of the encodings above, per-call options "
                    "equal on both sides); all (mu, sigma) identical after every game; non-trivial = >= 6 games with some player in >= 3"),
    ],
    rule="generated game + weak order + a set of encodings of that order; all encodings must give bit-identical (mu, sigma); plus a symmetry anchor for "
         "ties given through equal values of different types; non-trivial = float/bool/huge values on an order with a tie or a non-identity order; "
         "distinct by SHA-1 of the case",
    assumptions=[
        "rank / score values are finite Python ints, floats or bools (NaN, inf, Decimal, Fraction are not generated: the property does not decide them)",
        "'identical result' is read as bit-identical",
    ],
)

from vf import opt as _opt  # noqa: E402

PROPERTY.clauses.append(_opt.optimised("C03", next(c for c in PROPERTY.clauses if c.name == "encodings-agree"), quick=64, thorough=640))
