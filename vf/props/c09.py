"""C09 — predict_win is a probability distribution that respects symmetry and skill."""
from __future__ import annotations

import sys

from hypothesis import strategies as st

from vf.core import Clause, Property, Violation
from vf.osk import guarded, mk_model, mk_teams, model_for
from vf.predgen import pred_cases, pred_labels

EPS = sys.float_info.epsilon


def pw(cfg, teams, ctx, case=None):
    m = model_for(cfg, case or {})
    ctx.called()
    return guarded(m.predict_win, mk_teams(m, teams), what="predict_win")


def check_c09(case, ctx):
    cfg, teams = case["cfg"], case["teams"]
    kind = cfg["kind"]
    n = len(teams)
    p = pw(cfg, teams, ctx, case)  # the base call: on a model that may have been through a failed call (prelude)
    for lab in pred_labels(case):
        ctx.label(lab)
    if not isinstance(p, list) or len(p) != n:
        raise Violation("shape", f"{kind}: {n} teams, result {p!r}")
    for i, x in enumerate(p):
        if not (isinstance(x, (int, float)) and not isinstance(x, bool) and -1e-12 <= x <= 1 + 1e-12):
            raise Violation("range", f"{kind}: predict_win[{i}] = {x!r}")
    s = sum(p)
    if abs(s - 1.0) > n * 1e-13:
        raise Violation("sum", f"{kind}: predict_win sums to {s!r} ({p})")
    # ids and names are not part of a rating's value (clones of one template rating share its id)
    m_same = mk_model(cfg)
    objs = mk_teams(m_same, teams)
    for t in objs:
        for pl in t:
            pl.id = "shared-id"
            pl.name = "clone"
    ctx.called()
    p_same = guarded(m_same.predict_win, objs, what="predict_win (shared ids)")
    if p_same != p:
        raise Violation("depends-on-ids", f"{kind}: predict_win = {p!r}, but {p_same!r} when all ratings carry the same id")
    # the returned list belongs to the caller: converting it to percentages in place must not change later answers
    m_mut = mk_model(cfg)
    first = guarded(m_mut.predict_win, mk_teams(m_mut, teams), what="predict_win")
    for k in range(len(first)):
        first[k] = first[k] * 100.0
    again = guarded(mk_model(cfg).predict_win, mk_teams(m_mut, teams), what="predict_win")
    ctx.called(2)
    if again != p:
        raise Violation("returned-list-is-shared", f"{kind}: after the caller modified a returned list in place, predict_win returns {again!r} instead of {p!r}")
    # permutation
    perm = case["perm"]
    p2 = pw(cfg, [teams[k] for k in perm], ctx)
    for k, old in enumerate(perm):
        if abs(p2[k] - p[old]) > 1e-12:
            raise Violation("permutation", f"{kind}: team {old} has {p[old]!r}, but {p2[k]!r} when the teams are listed as {perm}")
    # players permuted inside a team
    pp = case["player_perms"]
    p3 = pw(cfg, [[t[j] for j in q] for t, q in zip(teams, pp)], ctx)
    for i in range(n):
        if abs(p3[i] - p[i]) > 1e-12:
            raise Violation("player-permutation", f"{kind}: team {i} has {p[i]!r}, but {p3[i]!r} when players are listed as {pp}")
    # identical teams
    ident = False
    for a in range(n):
        for b in range(a + 1, n):
            if teams[a] == teams[b]:
                ident = True
                if abs(p[a] - p[b]) > 1e-12:
                    raise Violation("identical-teams", f"{kind}: identical teams {a}, {b} get {p[a]!r} and {p[b]!r}")
    if n == 2 and teams[0] == teams[1] and p != [0.5, 0.5]:
        raise Violation("two-identical-not-half", f"{kind}: two identical teams get {p!r}")
    if ident:
        ctx.label("identical-teams")
        # identical teams passed as one and the same list object (e.g. [[p]] * 3): same numbers as with equal copies
        m = mk_model(cfg)
        objs = mk_teams(m, teams)
        first = {}
        shared = []
        for i, t in enumerate(teams):
            key = repr(t)
            if key in first:
                shared.append(objs[first[key]])
            else:
                first[key] = i
                shared.append(objs[i])
        ctx.called()
        ps = guarded(m.predict_win, shared, what="predict_win (shared team objects)")
        if ps != p:
            raise Violation("shared-team-object", f"{kind}: identical teams passed as the same list object give {ps!r}, as equal copies {p!r}")
    # monotonicity in one member's mu
    i, j, delta = case["inc_team"] % n, case["inc_player"], case["delta"]
    j = j % len(teams[i])
    new_mu = teams[i][j][0] + delta
    if new_mu > teams[i][j][0] and abs(new_mu) <= 20 * cfg["beta"]:
        t4 = [[list(q) for q in t] for t in teams]
        t4[i][j][0] = new_mu
        p4 = pw(cfg, t4, ctx)
        fl = 8 * EPS
        if p4[i] < p[i] - fl:
            raise Violation("monotone-own", f"{kind}: raising mu of player {i},{j} by {delta!r} lowered its team's win probability {p[i]!r} -> {p4[i]!r}")
        for k in range(n):
            if k != i and p4[k] > p[k] + fl:
                raise Violation("monotone-other", f"{kind}: raising mu of player {i},{j} by {delta!r} raised team {k}'s win probability {p[k]!r} -> {p4[k]!r}")
        ctx.label("monotonicity-checked")
    sizes = [len(t) for t in teams]
    ctx.nontrivial_if(n >= 3 or len(set(sizes)) > 1)


@st.composite
def cases(draw):
    c = draw(pred_cases())
    n = len(c["teams"])
    beta = c["cfg"]["beta"]
    c["perm"] = list(draw(st.permutations(list(range(n)))))
    c["player_perms"] = [list(draw(st.permutations(list(range(len(t)))))) for t in c["teams"]]
    c["inc_team"] = draw(st.integers(0, 7))
    c["inc_player"] = draw(st.integers(0, 7))
    c["delta"] = draw(st.one_of(st.floats(1e-9, 10.0), st.floats(1e-3, 1.0), st.sampled_from([1e-12, 1e-6, 40.0]))) * beta
    return c


def _svc_recurring(data, cfg):
    from vf import service

    jobs = []
    for t in service.lineups(data, cfg, k=8):
        # ... each next to the same line-up with the first member of team 0 raised (monotonicity is judged on the pair)
        up = [[list(p) for p in tm] for tm in t]
        up[0][0][0] = min(20 * cfg["beta"], up[0][0][0] + data.draw(st.floats(0.1, 3.0)) * cfg["beta"])
        jobs += [{"op": "predict_win", "teams": t}, {"op": "predict_win", "teams": up}]
    return jobs


def _svc_judge(spec, out, ctx):
    from vf import service

    kind = spec["cfg"]["kind"]
    for when in ("first", "last"):
        for job, p in zip(spec["recurring"], out[when]):
            n = len(job["teams"])
            where = f"{kind}: predict_win on {n} teams ({'one of the first calls of the process' if when == 'first' else 'after ' + str(out['fillers']) + ' other calls through the same model'})"
            if service.raised(p):
                raise Violation(f"service:{when}:raised", f"{where} raised {p['raised']}")
            if not isinstance(p, list) or len(p) != n or any(not (isinstance(x, (int, float)) and -1e-12 <= x <= 1 + 1e-12) for x in p):
                raise Violation(f"service:{when}:range", f"{where} = {p!r}")
            if abs(sum(p) - 1.0) > n * 1e-13:
                raise Violation(f"service:{when}:sum", f"{where} sums to {sum(p)!r} ({p})")
            teams = job["teams"]
            for a in range(n):
                for b in range(a + 1, n):
                    if teams[a] == teams[b] and abs(p[a] - p[b]) > 1e-12:
                        raise Violation(f"service:{when}:identical-teams", f"{where}: identical teams {a}, {b} get {p[a]!r}, {p[b]!r}")
            if n == 2 and teams[0] == teams[1] and p != [0.5, 0.5]:
                raise Violation(f"service:{when}:one-half", f"{where}: two identical teams get {p!r}")
        for k in range(0, len(spec["recurring"]) - 1, 2):
            base, up = out[when][k], out[when][k + 1]
            if isinstance(base, list) and isinstance(up, list) and len(base) == len(up):
                if up[0] < base[0] - 8 * EPS or any(up[i] > base[i] + 8 * EPS for i in range(1, len(up))):
                    raise Violation(f"service:{when}:monotonicity", f"{kind} ({when}): raising a member of team 0 ({spec['recurring'][k]['teams'][0][0]} -> "
                                                                     f"{spec['recurring'][k + 1]['teams'][0][0]}) changes predict_win from {base!r} to {up!r}")
    for m in out.get("mixed", []):
        p = m["results"]["predict_win"]
        n = len(m["teams"])
        if service.raised(p):
            raise Violation("service:mixed:raised", f"{kind}: predict_win on a team seen at the start next to never-seen teams raised {p['raised']}")
        if len(p) != n or any(not (-1e-12 <= x <= 1 + 1e-12) for x in p) or abs(sum(p) - 1.0) > n * 1e-13:
            raise Violation("service:mixed:distribution", f"{kind}: predict_win on a team seen at the start next to never-seen teams = {p!r}")


def _svc(i):
    from vf import service

    if not hasattr(_svc, "fns"):
        _svc.fns = service.make_clause_functions(_svc_recurring, _svc_judge)
    return _svc.fns[i]


PROPERTY = Property(
    pid="C09",
    clauses=[
        Clause(name="long-running-service", kind="custom", custom=lambda *a: _svc(0)(*a), check=lambda *a: _svc(1)(*a), quick=48, thorough=128, shards_quick=16, shards_thorough=16,
               rule="one fresh child interpreter and ONE long-lived model per case: predict_win on 11 recurring line-ups (newcomers on default ratings incl. identical "
                    "teams + generated ones) first, then 9 000 (quick) / 70 000 (thorough) other calls with ever new line-ups, then the recurring calls again: range, "
                    "sum 1, identical teams equal, exactly one half for two identical teams - early and late; non-trivial = at least 4 200 calls in between"),Clause(name="distribution-symmetry-monotonicity", strategy=cases(), check=check_c09, quick=8000, thorough=150000,
                    rule="one list of teams + a drawn team permutation, player permutations and a single-member mu increment; non-trivial = >= 3 teams or two teams "
                         "of unequal size")],
    rule="generated teams (incl. identical / 1-ulp-apart teams, 2..8 x 1..8, scale 1e-3..1e3); oracle: length, [0,1] (1e-12), sum 1 (n x 1e-13), permutation "
         "equivariance and identical-team equality (1e-12), exactly [0.5, 0.5] for two identical teams, monotonicity in one member's mu (8 ulp); distinct by SHA-1",
    assumptions=["'identical teams' = equal member lists in the same order"],
)

from vf import opt as _opt  # noqa: E402

PROPERTY.clauses.append(_opt.optimised("C09", next(c for c in PROPERTY.clauses if c.name == "distribution-symmetry-monotonicity"), quick=64, thorough=640))
