"""C04 — rate() is equivariant under reordering of teams and of players within a team."""
from __future__ import annotations

import itertools

from hypothesis import strategies as st

from vf import gen
from vf.budget import Budget, compare_equal
from vf.core import Clause, Property, Violation
from vf.osk import IS_PART, eff_tau, outcome_values, rate_values


def keeps_tied_order(perm, values):
    """True if every pair of mutually tied teams keeps its relative order under perm (new position k holds old team perm[k])."""
    pos = {old: k for k, old in enumerate(perm)}
    n = len(values)
    for a in range(n):
        for b in range(a + 1, n):
            if values[a] == values[b] and pos[a] > pos[b]:
                return False
    return True


def check_c04(case, ctx):
    cfg, teams, call = case["cfg"], case["teams"], case["call"]
    kind = cfg["kind"]
    n = len(teams)
    values = outcome_values(n, call)
    opts = {k: v for k, v in call.items() if k in ("tau", "limit_sigma")}
    use_scores = call.get("scores") is not None
    base = rate_values(cfg, teams, call, ctx)
    for lab in gen.game_labels(case):
        ctx.label(lab)
    bud = Budget(kind, teams, values, cfg["beta"], cfg["kappa"], eff_tau(cfg, call))
    if bud.near_boundary:
        ctx.exclude("branch-boundary")
        return
    pperm = case["player_perms"]
    if n <= 5:
        perms = list(itertools.permutations(range(n)))
        ctx.enumerated(f"all {n}! team permutations", len(perms))
    else:
        perms = [tuple(p) for p in case["team_perms"]]
    used = 0
    worst = 0.0
    for perm in perms:
        if kind in IS_PART and not keeps_tied_order(perm, values):
            ctx.exclude("tied-order (stated exception)")
            continue
        t2 = []
        for k, old in enumerate(perm):
            pp = pperm[old]
            t2.append([teams[old][j] for j in pp])
        c2 = dict(opts)
        if use_scores:
            c2["scores"] = [call["scores"][old] for old in perm]
        else:
            c2["ranks"] = [values[old] for old in perm]
        r2 = rate_values(cfg, t2, c2, ctx)
        # map back to the base indexing
        back = [[None] * len(teams[i]) for i in range(n)]
        for k, old in enumerate(perm):
            for jj, j in enumerate(pperm[old]):
                back[old][j] = r2[k][jj]
        w, bad = compare_equal(bud, base, back, cfg, teams, f"team permutation {list(perm)} / player permutations {pperm}")
        worst = max(worst, w)
        used += 1
        if bad:
            fam = "TM" if kind.startswith("TM") else kind
            raise Violation(f"perm:{fam}:{gen.tie_shape(case['classes'])}", f"{kind} call={call}: {bad}")
    # the team order as given, several re-listings of the players (a decision taken on a float team sum - a sort key, a tie-break - may
    # depend on the order in which the members are added up; one drawn re-listing per case rarely flips it)
    for pset in case.get("player_perm_sets", []):
        t2 = [[teams[i][j] for j in pset[i]] for i in range(n)]
        r2 = rate_values(cfg, t2, call, ctx)
        back = [[None] * len(teams[i]) for i in range(n)]
        for i in range(n):
            for jj, j in enumerate(pset[i]):
                back[i][j] = r2[i][jj]
        w, bad = compare_equal(bud, base, back, cfg, teams, f"teams in the given order, players re-listed as {pset}")
        worst = max(worst, w)
        if bad:
            fam = "TM" if kind.startswith("TM") else kind
            raise Violation(f"players-relisted:{fam}:{gen.tie_shape(case['classes'])}", f"{kind} call={call}: {bad}")
    ctx.maxi(f"{kind}:diff/budget", worst)
    ctx.nontrivial_if(n >= 3 and used > 1)
    if any(pp != sorted(pp) for pp in pperm):
        ctx.label("players-permuted")


@st.composite
def permuted_twin_games(draw):
    """Teams whose members' mu values are the SAME decimal numbers in different orders (and independent sigmas): their totals are
    mathematically equal while the float sums depend on the order of addition (24.1 + 25.2 + 26.3 != 26.3 + 25.2 + 24.1).  Biased to ties."""
    cfg = draw(gen.configs())
    beta = cfg["beta"]
    n = draw(st.integers(2, 5))
    k = draw(st.integers(3, 5))
    unit = draw(st.sampled_from([0.1, 0.1, 0.01, 0.3])) * cfg["scale"]
    base = [draw(st.integers(100, 400)) * unit for _ in range(k)]
    teams = []
    for i in range(n):
        mus = list(draw(st.permutations(base))) if draw(st.integers(0, 4)) > 0 else [draw(st.integers(100, 400)) * unit for _ in range(k)]
        teams.append([[max(-20 * beta, min(20 * beta, m)), 10.0 ** draw(st.floats(-1.5, 0.8)) * beta] for m in mus])
    classes = draw(gen.weak_orders(n, shapes_=("all", "onetie", "onetie", "free", "free", "none")))
    frag, enc = draw(gen.encodings(classes, kinds=["int", "float", "scores", "int_relabel"]))
    call = dict(frag)
    for o, v in draw(gen.call_options(cfg)).items():
        if v is not None:
            call[o] = v
    return {"cfg": cfg, "teams": teams, "call": call, "classes": classes, "meta": {"regime": "permuted_twins", "enc": enc}}


@st.composite
def cases(draw):
    g = draw(permuted_twin_games()) if draw(st.integers(0, 5)) == 0 else draw(gen.games(max_teams=8, max_size=5))
    n = len(g["teams"])
    g["player_perm_sets"] = [[list(draw(st.permutations(list(range(len(t)))))) for t in g["teams"]] for _ in range(6)]
    g["player_perms"] = [list(draw(st.permutations(list(range(len(t)))))) for t in g["teams"]]
    g["team_perms"] = [list(draw(st.permutations(list(range(n))))) for _ in range(24)] if n > 5 else []
    return g


@st.composite
def big_lobbies(draw):
    """beyond the 2..8 teams the properties' quantifiers name: free-for-all lobbies of 9..40 teams (exploration only; the code accepts them)"""
    cfg = draw(gen.configs(gammas=["default", "inv_k", "one"]))
    n = draw(st.one_of(st.integers(9, 40), st.sampled_from([16, 31, 32, 33, 40])))
    sizes = [draw(st.sampled_from([1, 1, 1, 2])) for _ in range(n)]
    teams, regime, info = draw(gen.team_values(cfg, sizes, regimes=["generic", "near_equal", "equal_sums", "identical"]))
    n = len(teams)
    classes = draw(gen.weak_orders(n, shapes_=("free", "none", "onetie")))
    frag, enc = draw(gen.encodings(classes, kinds=["int", "float", "scores"]))
    g = {"cfg": cfg, "teams": teams, "call": dict(frag), "classes": classes, "meta": {"regime": regime, "enc": enc, **info}}
    g["player_perms"] = [list(draw(st.permutations(list(range(len(t)))))) for t in teams]
    g["team_perms"] = [list(draw(st.permutations(list(range(n))))) for _ in range(6)]
    return g


PROPERTY = Property(
    pid="C04",
    clauses=[
        Clause(name="permutation-equivariance", strategy=cases(), check=check_c04, quick=2500, thorough=40000,
               rule="one game; all n! team permutations for n <= 5 (24 drawn ones above), each combined with a drawn permutation of the players of every team; "
                    "partial pairing: only permutations keeping tied teams in order; non-trivial = n >= 3 and at least one non-identity permutation compared"),
        Clause(name="large-lobbies", strategy=big_lobbies(), check=check_c04, quick=160, thorough=3000,
               rule="exploration beyond the stated 2..8 teams: lobbies of 9..40 teams (sizes 1-2), 6 drawn team permutations each; non-trivial as above"),
    ],
    rule="generated game x (exhaustive n! for n<=5 | 24 drawn) team permutations x drawn player permutations; per-player agreement with the unpermuted call "
         "within the numerical budget of DESIGN.md 4.4; non-trivial = n >= 3; distinct by SHA-1",
    assumptions=["cases with a TM pair within 1e-3 (relative, in Gaussian mass) of a branch threshold are excluded from the ulp-stability comparison (counted)"],
)

from vf import opt as _opt  # noqa: E402

PROPERTY.clauses.append(_opt.optimised("C04", next(c for c in PROPERTY.clauses if c.name == "permutation-equivariance"), quick=32, thorough=320))
