"""C14 — stateless calls: results independent of call history, identity, interleaving, hash seed."""
from __future__ import annotations

import copy
import json
import os
import subprocess
import sys
import threading

from hypothesis import strategies as st

from vf import faults, gen
from vf.core import Clause, HarnessError, Property, Violation
from vf.osk import call_kwargs, mk_model, mk_teams
from vf.sched import Scheduler, count_steps
from vf.stateful import machine_factory, replayer

OPS = ["rate", "rate", "rate", "predict_win", "predict_draw", "predict_rank"]


# ------------------------------------------------------------------------------------------------
# jobs
# ------------------------------------------------------------------------------------------------
def snapshot(model):
    return {k: (type(v).__name__, id(v) if callable(v) else v) for k, v in vars(model).items()}


def run_job(model, job, objs=None):
    """-> JSON-able result of one call (fresh ratings unless objs is given)."""
    if objs is None:
        objs = mk_teams(model, job["teams"])
    op = job["op"]
    if op == "rate":
        res = model.rate(objs, **call_kwargs(job.get("call", {})))
        return [[[p.mu, p.sigma] for p in t] for t in res]
    if op == "predict_win":
        return list(model.predict_win(objs))
    if op == "predict_draw":
        return model.predict_draw(objs)
    if op == "predict_rank":
        return [list(x) for x in model.predict_rank(objs)]
    raise KeyError(op)


def guarded_job(model, job, what, objs=None):
    try:
        return run_job(model, job, objs)
    except Exception as e:  # noqa: BLE001
        raise Violation(f"raised:{type(e).__name__}", f"{what}: {job['op']} raised {type(e).__name__}: {e}") from None


@st.composite
def jobs_for(draw, cfg, max_teams=5, max_size=3):
    op = draw(st.sampled_from(OPS))
    g = draw(gen.games(cfg=cfg, max_teams=max_teams, max_size=max_size, enc_kinds=["int", "float", "scores", "omitted", "mixed"]))
    job = {"op": op, "teams": g["teams"]}
    if op == "rate":
        job["call"] = g["call"]
    return job


@st.composite
def job_with_shape(draw, cfg, op, sizes):
    """A job of a GIVEN operation and team-size shape (values, outcome and options drawn): symmetric workloads - several threads doing the
    same kind of call on lobbies of the same shape - are what servers run, and what a one-slot memo keyed by a shape-derived quantity needs."""
    opts = draw(gen.call_options(cfg))
    tau_eff = cfg["tau"] if opts.get("tau") is None else opts["tau"]
    teams, _, _ = draw(gen.team_values(cfg, list(sizes), tau_eff=tau_eff))
    job = {"op": op, "teams": teams}
    if op == "rate":
        classes = draw(gen.weak_orders(len(teams)))
        frag, _ = draw(gen.encodings(classes, kinds=["int", "float", "scores", "omitted", "mixed"]))
        job["call"] = dict(frag, **{k: v for k, v in opts.items() if v is not None})
    return job


def opt_sig(job):
    c = job.get("call", {})
    return (job["op"], c.get("tau") is not None and c.get("tau"), c.get("limit_sigma"))


# ------------------------------------------------------------------------------------------------
# clause 1: no attribute of the model changes (valid and rejected calls)
# ------------------------------------------------------------------------------------------------
def check_attrs(case, ctx):
    cfg = case["cfg"]
    model = mk_model(cfg)
    before = snapshot(model)
    foreign = faults.foreign_models()
    nt = False
    for job in case["jobs"]:
        guarded_job(model, job, "valid call")
        ctx.called()
        after = snapshot(model)
        if after != before:
            diff = {k: (before.get(k), after.get(k)) for k in set(before) | set(after) if before.get(k) != after.get(k)}
            raise Violation("attr-changed:" + ",".join(sorted(diff)), f"{cfg['kind']} {job['op']}({job.get('call', {})}) changed model attributes: {diff}")
        if job["op"] == "rate" and (job["call"].get("limit_sigma") is not None or job["call"].get("tau") is not None):
            nt = True
    # rejected calls
    job = case["jobs"][0]
    sizes = [len(t) for t in job["teams"]]
    sel = "ranks" if job.get("call", {}).get("ranks") is not None else "scores" if job.get("call", {}).get("scores") is not None else None
    fl = faults.enumerate_faults(cfg["kind"], sizes, sel, op=job["op"])
    for idx in case["fault_idx"]:
        fault = fl[idx % len(fl)]
        objs = mk_teams(model, job["teams"])
        targ, kw, _ = faults.build(objs, call_kwargs(job.get("call", {})), fault, foreign)
        try:
            if job["op"] == "rate":
                model.rate(targ, **kw)
            else:
                getattr(model, job["op"])(targ)
        except Exception:  # noqa: BLE001 - what is raised is C13's business
            pass
        ctx.called()
        after = snapshot(model)
        if after != before:
            diff = {k: (before.get(k), after.get(k)) for k in set(before) | set(after) if before.get(k) != after.get(k)}
            raise Violation("attr-changed-by-rejected-call", f"{cfg['kind']} {job['op']} with fault {faults.describe(fault)} changed model attributes: {diff}")
    ctx.label("kind:" + cfg["kind"])
    ctx.nontrivial_if(nt)


@st.composite
def attr_cases(draw):
    cfg = draw(gen.configs())
    jobs = draw(st.lists(jobs_for(cfg), min_size=1, max_size=3))
    return {"cfg": cfg, "jobs": jobs, "fault_idx": draw(st.lists(st.integers(0, 10 ** 6), min_size=0, max_size=6))}


# ------------------------------------------------------------------------------------------------
# clause 2: history independence (rule-based state machine)
# ------------------------------------------------------------------------------------------------
class _Interrupted(Exception):
    pass


class SharedModelHistory:
    """One shared model; after every call the result must be bit-identical to the same call on a fresh model."""

    def __init__(self, first, ctx):
        self.cfg = first["cfg"]
        self.ctx = ctx
        # the shared model's gamma callback is the configured one behind a pass-through wrapper that the harness can arm to raise (a drawn
        # exception class) at its k-th invocation: a rate() call that is INTERRUPTED part-way; unarmed it changes no number
        from vf import failing

        self.model, self.trip = failing.tripwire_model(self.cfg)
        self.nontrivial = False
        self.labels = ["kind:" + self.cfg["kind"]]
        self.prev = None
        self.before = snapshot(self.model)

    @staticmethod
    def init_strategy():
        return gen.configs().map(lambda cfg: {"op": "init", "cfg": cfg})

    def apply(self, job):
        if job.get("op") == "fail":
            from vf import failing

            failing.run_failing(self.model, job, self.trip)
            self.ctx.called()
            lab = "failed-call:" + job["kind"]
            if lab not in self.labels:
                self.labels.append(lab)
            if snapshot(self.model) != self.before:
                raise Violation("attr-changed-by-failed-call", f"{self.cfg['kind']} model attributes changed by a call that did not complete normally ({job['kind']}, {job['call_op']})")
            return
        if job.get("interrupted") is not None:
            # a valid rate() call that does not complete: the user's gamma callback raises at its k-th invocation.  Whatever the call
            # leaves behind, it must not change what LATER calls on this model (or on any other model) return.
            self.trip.update(armed=True, after=int(job["interrupted"]), count=0, exc=job.get("exc", "Interrupted"))
            try:
                run_job(self.model, job)
                self.labels.append("interrupted-call:completed") if "interrupted-call:completed" not in self.labels else None
            except Exception:  # noqa: BLE001 - the interrupted call itself is not judged
                self.labels.append("interrupted-call:raised") if "interrupted-call:raised" not in self.labels else None
            finally:
                self.trip["armed"] = False
            self.ctx.called()
            if snapshot(self.model) != self.before:
                raise Violation("attr-changed-by-interrupted-call", f"{self.cfg['kind']} model attributes changed by a rate() call whose gamma callback raised")
            return
        if job.get("out_of_range"):
            # an earlier call with absurd numbers (far outside the supported range; it may raise): whatever it does, it must not
            # change what LATER calls on this model return
            try:
                run_job(self.model, job)
            except Exception:  # noqa: BLE001
                pass
            self.ctx.called()
            if snapshot(self.model) != self.before:
                raise Violation("attr-changed-by-out-of-range-call", f"{self.cfg['kind']} model attributes changed by a {job['op']} call with out-of-range values")
            self.labels.append("out-of-range-call") if "out-of-range-call" not in self.labels else None
            return
        got = guarded_job(self.model, job, "shared model")
        fresh = guarded_job(mk_model(self.cfg), job, "fresh model")
        self.ctx.called(2)
        if got != fresh:
            raise Violation(f"history-dependent:{job['op']}",
                            f"{self.cfg['kind']} {job['op']}({job.get('call', {})}) after {self.prev} on a shared model: {got!r} != fresh model {fresh!r}"[:900])
        if snapshot(self.model) != self.before:
            raise Violation("attr-changed-in-history", f"{self.cfg['kind']} model attributes changed by {job['op']}({job.get('call', {})})")
        sig = opt_sig(job)
        if self.prev is not None and self.prev != sig and job["op"] == "rate":
            self.nontrivial = True
        self.prev = sig

    RULES = {}


def _absurd(h):
    beta = h.cfg["beta"]
    big = st.sampled_from([1e3, 1e4, -1e4, 1e6, 1e150, -1e150])
    return st.fixed_dictionaries({
        "op": st.sampled_from(["rate", "rate", "predict_win", "predict_draw", "predict_rank"]),
        "out_of_range": st.just(True),
        "teams": st.lists(st.lists(st.tuples(big.map(lambda f: f * beta), st.sampled_from([1e-300, 1e-6, 1.0, 1e6, 1e150]).map(lambda f: f * beta)).map(list),
                                   min_size=1, max_size=2), min_size=2, max_size=3),
        "call": st.just({}),
    })


def _failing(h):
    from vf import failing

    return failing.failing_specs(h.cfg)


SharedModelHistory.RULES = {
    "failed_call": _failing,
    "out_of_range_call": _absurd,
    "interrupted_call": lambda h: st.tuples(jobs_for(h.cfg, max_teams=4, max_size=3), st.integers(0, 5)).map(
        lambda jk: dict(jk[0], op="rate", call=jk[0].get("call", {}), interrupted=jk[1], exc=["Interrupted", "TypeError", "KeyError", "ValueError"][jk[1] % 4])),
    "rate_or_predict": lambda h: jobs_for(h.cfg, max_teams=4, max_size=3),
    "rate_with_limit": lambda h: jobs_for(h.cfg, max_teams=3, max_size=2).map(
        lambda j: dict(j, op="rate", call=dict(j.get("call", {}), limit_sigma=True))),
    "rate_plain": lambda h: jobs_for(h.cfg, max_teams=3, max_size=2).map(
        lambda j: dict(j, op="rate", call={k: v for k, v in j.get("call", {}).items() if k in ("ranks", "scores")})),
}


# ------------------------------------------------------------------------------------------------
# clause 3: identity independence
# ------------------------------------------------------------------------------------------------
def check_identity(case, ctx):
    cfg, job = case["cfg"], case["job"]
    base = guarded_job(mk_model(cfg), job, "plain")
    variants = {}
    m = mk_model(cfg)
    variants["named"] = guarded_job(m, job, "named", mk_teams(m, job["teams"], names=True))
    m = mk_model(cfg)
    objs = mk_teams(m, job["teams"])
    for t in objs:
        for p in t:
            p.id = "same-id"
            p.name = case["name"]
    variants["same-id-and-name"] = guarded_job(m, job, "same id", objs)
    # the model object itself duplicated: a deep copy and a pickle round trip (what multiprocessing workers and on-disk caches hold) are
    # models with the same construction parameters - "object identity" is not one of the things a result may depend on
    import copy
    import pickle

    variants["deep-copied-model"] = guarded_job(copy.deepcopy(mk_model(cfg)), job, "deep-copied model")
    variants["shallow-copied-model"] = guarded_job(copy.copy(mk_model(cfg)), job, "copied model")
    try:
        blob = pickle.dumps(mk_model(cfg))
    except Exception:  # noqa: BLE001 - a model that cannot be pickled (its gamma callback decides that) is not asserted to be
        blob = None
        ctx.label("model-not-picklable")
    if blob is not None:
        try:
            clone = pickle.loads(blob)
        except Exception as e:  # noqa: BLE001
            raise Violation("model-pickle-roundtrip-raised", f"{cfg['kind']}: pickle.loads(pickle.dumps(model)) raised {e!r}") from None
        variants["unpickled-model"] = guarded_job(clone, job, "unpickled model")
    m = mk_model(cfg)
    objs = mk_teams(m, job["teams"])
    variants["deepcopied"] = guarded_job(m, job, "deepcopy", copy.deepcopy(objs))
    m = mk_model(cfg)
    rc = type(m.rating())
    objs = [[rc(p[0], p[1]) for p in t] for t in reversed(job["teams"])][::-1]
    variants["direct-constructor-reverse-creation-order"] = guarded_job(m, job, "ctor", objs)
    # a model that has seen other ratings with the same ids before
    m = mk_model(cfg)
    objs = mk_teams(m, job["teams"])
    keep = copy.deepcopy(objs)
    guarded_job(m, dict(job, op="rate", call={}), "warm-up", objs)
    variants["same-ids-seen-before"] = guarded_job(m, job, "seen", keep)
    if job["op"] != "rate":
        # value-equal teams passed as one and the same list object (predictions do not modify ratings)
        m = mk_model(cfg)
        objs = mk_teams(m, job["teams"])
        first = {}
        shared = []
        for i, t in enumerate(job["teams"]):
            key = repr(t)
            shared.append(objs[first.setdefault(key, i)])
        variants["value-equal-teams-as-one-object"] = guarded_job(m, job, "shared", shared)
        # ratings are values: one object reused for every value-equal player (new = model.rating() used for all newcomers)
        m = mk_model(cfg)
        pool = {}
        aliased = [[pool.setdefault((p[0], p[1]), m.rating(p[0], p[1])) for p in t] for t in job["teams"]]
        variants["value-equal-players-as-one-object"] = guarded_job(m, job, "aliased", aliased)
    # the caller owns what a call returns: scribbling over the returned container must not change what the next call returns
    m = mk_model(cfg)
    objs = mk_teams(m, job["teams"])
    try:
        raw = m.rate(objs, **call_kwargs(job.get("call", {}))) if job["op"] == "rate" else getattr(m, job["op"])(objs)
    except Exception as e:  # noqa: BLE001
        raise Violation(f"raised:{type(e).__name__}", f"{job['op']} raised {e!r}") from None
    if isinstance(raw, list):
        for k in range(len(raw)):
            raw[k] = "scribbled"
        raw.append("extra")
    variants["after-caller-modified-the-returned-list"] = guarded_job(mk_model(cfg), job, "after scribble")
    ctx.called(9)
    for name, res in variants.items():
        if res != base:
            raise Violation("identity-dependent:" + name, f"{cfg['kind']} {job['op']}: variant {name} gives {res!r} != {base!r}"[:900])
    ctx.label("op:" + job["op"])
    ctx.nontrivial_if(len(job["teams"]) >= 3 or job["op"] == "rate")


@st.composite
def identity_cases(draw):
    cfg = draw(gen.configs())
    return {"cfg": cfg, "job": draw(jobs_for(cfg)), "name": draw(st.one_of(st.none(), st.text(max_size=5)))}


# ------------------------------------------------------------------------------------------------
# clause 4: interleavings, schedule owned by the harness
# ------------------------------------------------------------------------------------------------
_SWEEPS = {"warm": 0, "cold": 0}  # systematic shared-state sweeps done by this worker process


def check_interleaving(case, ctx):
    cfg, jobs, pre = case["cfg"], case["jobs"], case["preemptions"]
    expected = []
    total = 0
    for job in jobs:
        fresh = mk_model(cfg)
        try:
            steps, res = count_steps(lambda fresh=fresh, job=job: run_job(fresh, job), opcodes=bool(case.get("opcodes")))
        except HarnessError:
            raise
        except Exception as e:  # noqa: BLE001
            raise Violation(f"raised:{type(e).__name__}", f"sequential {job['op']} raised {e!r}") from None
        expected.append(res)
        total += steps
    shared = mk_model(cfg)
    before = snapshot(shared)
    # every job builds its own ratings *before* the threads start (disjoint sets of ratings)
    objs = [mk_teams(shared, job["teams"]) for job in jobs]
    thunks = [lambda job=job, o=o: run_job(shared, job, o) for job, o in zip(jobs, objs)]
    points = sorted((1 + int(fr * total), th) for fr, th in pre)
    s = Scheduler(thunks, points, opcodes=bool(case.get("opcodes")), watch=shared, on_write=case.get("on_write") or (), on_touch=case.get("on_touch") or ())
    results, errors = s.run()
    ctx.called(2 * len(jobs))
    for i, (r, e, x) in enumerate(zip(results, errors, expected)):
        if e is not None:
            raise Violation(f"raised-under-interleaving:{type(e).__name__}", f"{cfg['kind']} job {i} {jobs[i]['op']} raised {e!r} under schedule {s.trace}")
        if r != x:
            raise Violation(f"interleaving-dependent:{jobs[i]['op']}",
                            f"{cfg['kind']} job {i} {jobs[i]['op']}({jobs[i].get('call', {})}) under schedule {s.trace} (of {total} steps): {r!r} != sequential {x!r}"[:1200])
    if snapshot(shared) != before:
        raise Violation("attr-changed-under-interleaving", f"{cfg['kind']} model attributes changed")
    _SWEEPS["warm"] += 1 if s.touches > 0 and len(jobs) > 1 else 0
    if s.touches > 0 and len(jobs) > 1 and _SWEEPS["warm"] <= 25:
        # (at most 25 sweeps per worker process: on a tree WITH legitimate shared state every case would pay for one)
        # the jobs executed code that touches process-wide mutable state: explore it systematically - ONE preemption at each of its first steps,
        # to each other thread (a CHESS-style bound-1 sweep; costs nothing on a tree without such state)
        for k in range(min(s.touches, 12)):
            for tgt in range(1, len(jobs)):
                sh2 = mk_model(cfg)
                objs2 = [mk_teams(sh2, job["teams"]) for job in jobs]
                th2 = [lambda job=job, o=o, sh2=sh2: run_job(sh2, job, o) for job, o in zip(jobs, objs2)]
                s2 = Scheduler(th2, [], opcodes=bool(case.get("opcodes")), watch=sh2, on_touch=[None] * k + [tgt])
                r2, e2 = s2.run()
                ctx.called(len(jobs))
                for i, (r, e, x) in enumerate(zip(r2, e2, expected)):
                    if e is not None:
                        raise Violation(f"raised-under-interleaving:{type(e).__name__}", f"{cfg['kind']} job {i} {jobs[i]['op']} raised {e!r} when preempted at step {k} of the shared-state code ({s2.trace})")
                    if r != x:
                        raise Violation(f"interleaving-dependent:{jobs[i]['op']}",
                                        f"{cfg['kind']} job {i} {jobs[i]['op']} with ONE preemption at step {k} of the code that touches process-wide state ({s2.trace}): {r!r} != sequential {x!r}"[:1200])
        ctx.label("systematic-shared-state-sweep")
    ctx.label(f"jobs:{len(jobs)}", f"switches:{min(s.switches, 6)}", "granularity:" + ("bytecode" if case.get("opcodes") else "line"),
              f"shared-writes-seen:{min(s.writes, 3)}", f"steps-in-shared-state-code:{min(s.touches, 3)}")
    ctx.nontrivial_if(s.switches >= 1)


@st.composite
def interleaving_cases(draw, min_pre=None):
    cfg = draw(gen.configs())
    k = draw(st.integers(2, 4))
    if draw(st.integers(0, 2)) == 0:
        # symmetric workload: one or two operations on lobbies of one or two shapes
        ops = draw(st.lists(st.sampled_from(OPS), min_size=1, max_size=2))
        shapes_ = draw(st.lists(gen.shapes(max_teams=3, max_size=2), min_size=1, max_size=2))
        jobs = [draw(job_with_shape(cfg, draw(st.sampled_from(ops)), draw(st.sampled_from(shapes_)))) for _ in range(k)]
    else:
        jobs = [draw(jobs_for(cfg, max_teams=3, max_size=2)) for _ in range(k)]
    # make sure at least one job is a rate call with a per-call option in most cases
    if draw(st.integers(0, 3)) > 0:
        j = jobs[0]
        jobs[0] = dict(j, op="rate", call=dict(j.get("call", {}), limit_sigma=draw(st.sampled_from([True, False])),
                                               tau=draw(st.sampled_from([0.0, cfg["beta"], cfg["beta"] / 7.0]))))
    pre = draw(st.lists(st.tuples(st.floats(0.0, 1.0), st.integers(0, k - 1)).map(list),
                        min_size=draw(st.sampled_from([0, 1, 1, 2])) if min_pre is None else max(min_pre, draw(st.integers(1, 3))), max_size=6))
    on_write = draw(st.lists(st.one_of(st.none(), st.integers(0, k - 1)), min_size=0, max_size=4))
    # preemptions at the first steps executed inside functions that touch process-wide mutable state (none exist in a tree without such state)
    on_touch = draw(st.lists(st.one_of(st.none(), st.none(), st.integers(0, k - 1)), min_size=0, max_size=12))
    return {"cfg": cfg, "jobs": jobs, "preemptions": pre, "opcodes": draw(st.integers(0, 3)) == 0, "on_write": on_write, "on_touch": on_touch}


# ------------------------------------------------------------------------------------------------
# clause 5: hash seed (children with different PYTHONHASHSEED)
# ------------------------------------------------------------------------------------------------
ORDERS = (("0", "forward"), ("1", "reverse"), ("2", "rotated"), ("4242", "evens-first"), ("random", "forward"))
# ... and its own REPETITION of every call (the last repetition is the one compared): the k-th call of a process, a counter, a bounded
# cache that has started to evict are reached at different calls in different children
# ... and its own DEPLOYMENT: interpreter flags (-O strips assert statements and __debug__ blocks, -OO docstrings too), time zone, locale,
# working directory - things that are constant within one test process and differ between installations
DEPLOYMENT = {("0", "forward"): ([], {}, None), ("1", "reverse"): (["-O"], {"TZ": "Pacific/Kiritimati"}, None),
              ("2", "rotated"): ([], {"LC_ALL": "C", "LANG": "C", "TZ": "America/St_Johns"}, "/"),
              ("4242", "evens-first"): (["-OO"], {"PYTHONUTF8": "1"}, None), ("random", "forward"): (["-X", "dev"], {"HOME": "/nonexistent"}, "/tmp")}
REPS = {("0", "forward"): 1, ("1", "reverse"): 2, ("2", "rotated"): 3, ("4242", "evens-first"): 1, ("random", "forward"): 5}


def run_children(cases, tag):
    """-> {(hashseed, order): [result per call]} from five fresh child interpreters."""
    here = os.path.dirname(os.path.dirname(os.path.dirname(os.path.abspath(__file__))))
    work = os.path.join(here, ".work", f"c14-hash-{os.getpid()}-{tag}")
    os.makedirs(work, exist_ok=True)
    path = os.path.join(work, "cases.json")
    with open(path, "w") as f:
        json.dump(cases, f)
    outs = {}
    try:
        # every child is a fresh interpreter with its own hash seed AND its own execution order of the same calls: any state that
        # survives a call anywhere in the process (module- or class-level caches, memoised helpers) makes the orders disagree
        for hs, order in ORDERS:
            flags, extra, cwd = DEPLOYMENT[(hs, order)]
            env = dict(os.environ, PYTHONHASHSEED=hs, **extra)
            p = subprocess.run([sys.executable, "-B", *flags, "-m", "vf.hashchild", path, order, str(REPS[(hs, order)])], capture_output=True, text=True, env=env,
                               timeout=600, cwd=cwd)
            if p.returncode != 0:
                raise HarnessError(f"hash-seed child failed: {p.stderr[-2000:]}")
            outs[(hs, order)] = json.loads(p.stdout)
    finally:
        try:
            os.remove(path)
            os.rmdir(work)
        except OSError:
            pass
    return outs


def compare_children(cases, outs, ctx=None):
    ref = outs[ORDERS[0]]
    for k, (case, r0) in enumerate(zip(cases, ref)):
        if ctx is not None:
            ctx.begin(case)
            ctx.called(len(ORDERS))
        for (hs, order), o in outs.items():
            if o[k] != r0:
                v = Violation("hashseed-or-call-order-dependent",
                              f"{case['cfg']['kind']} {case['job']['op']} (call {k} of {len(cases)}): child with PYTHONHASHSEED={hs} executing the calls in {order} order "
                              f"gives {o[k]!r} != {r0!r} (seed 0, forward order)"[:900])
                v.case = {"calls": cases, "index": k}
                raise v
        if ctx is not None:
            ctx.nontrivial_if(True)
            ctx.label("op:" + case["job"]["op"])
            ctx.end()


def hashseed_custom(ctx, seed, tier, shard, nshards, n):
    from hypothesis import HealthCheck, given, settings
    from hypothesis import seed as hseed

    cases = []

    @hseed(seed)
    @settings(max_examples=n, database=None, deadline=None, suppress_health_check=list(HealthCheck))
    @given(identity_cases(), st.booleans())
    def collect(c, twin):
        cases.append({"cfg": c["cfg"], "job": c["job"]})
        if twin:
            # the same call under a model with another beta: same shapes and player counts, different parameters
            cfg2 = dict(c["cfg"])
            cfg2["beta"] = c["cfg"]["beta"] * 0.37
            cases.append({"cfg": cfg2, "job": c["job"]})

    collect()
    compare_children(cases, run_children(cases, shard), ctx)


def check_hashcase(case, ctx):
    """plain replay: the saved list of calls is executed again in five fresh children (orders / hash seeds) and compared."""
    cases = case["calls"]
    compare_children(cases, run_children(cases, "replay"))
    ctx.called(len(ORDERS) * len(cases))


# ------------------------------------------------------------------------------------------------
# clause 5b: interleavings at COLD START (each schedule in a fresh interpreter)
# ------------------------------------------------------------------------------------------------
def probe_jobs(cfg):
    """Fixed valid calls covering every total player count 2..16 and every team count 2..8 (default-rated players, distinct mu)."""
    jobs = []
    for total in range(2, 17):
        n = min(total, 8) if total % 2 else 2
        sizes = [total // n + (1 if i < total % n else 0) for i in range(n)]
        teams = [[[cfg["mu"] + 0.1 * cfg["beta"] * (i - j), cfg["sigma"]] for j in range(k)] for i, k in enumerate(sizes)]
        for op in ("predict_draw", "predict_rank", "predict_win"):
            jobs.append({"op": op, "teams": teams})
    for n in range(3, 9):
        teams = [[[cfg["mu"] + 0.2 * cfg["beta"] * i, cfg["sigma"]]] for i in range(n)]
        jobs.append({"op": "rate", "teams": teams, "call": {"ranks": [i // 2 for i in range(n)]}})
        jobs.append({"op": "predict_rank", "teams": teams})
    return jobs


def run_cold(case, tag):
    cfg, jobs = case["cfg"], case["jobs"]
    expected = []
    total = 0
    for job in jobs:
        fresh = mk_model(cfg)
        try:
            steps, res = count_steps(lambda fresh=fresh, job=job: run_job(fresh, job), opcodes=bool(case.get("opcodes")))
        except HarnessError:
            raise
        except Exception as e:  # noqa: BLE001
            raise Violation(f"raised:{type(e).__name__}", f"sequential {job['op']} raised {e!r}") from None
        expected.append(res)
        total += steps
    here = os.path.dirname(os.path.dirname(os.path.dirname(os.path.abspath(__file__))))
    work = os.path.join(here, ".work", f"c14-cold-{os.getpid()}-{tag}")
    os.makedirs(work, exist_ok=True)
    path = os.path.join(work, "case.json")
    payload = dict(case, points=sorted((1 + int(fr * total), th) for fr, th in case["preemptions"]))
    with open(path, "w") as f:
        json.dump(payload, f)
    try:
        p = subprocess.run([sys.executable, "-B", "-m", "vf.coldchild", path], capture_output=True, text=True, timeout=300)
    finally:
        try:
            os.remove(path)
            os.rmdir(work)
        except OSError:
            pass
    if p.returncode != 0:
        raise HarnessError(f"cold-start child failed: {p.stderr[-2000:]}")
    out = json.loads(p.stdout)
    for job, got in zip(probe_jobs(cfg), out.get("probes", [])):
        want = guarded_job(mk_model(cfg), job, "probe (sequential)")
        if got != want:
            raise Violation(f"cold-start:probe-after-interleaving:{job['op']}",
                            f"{cfg['kind']}: after the interleaved first calls of a fresh process (schedule {out['trace']}), {job['op']} on {len(job['teams'])} teams / "
                            f"{sum(len(t) for t in job['teams'])} players returns {got!r}, sequentially {want!r}"[:1200])
    for i, (r, e, x) in enumerate(zip(out["results"], out["errors"], expected)):
        if e is not None:
            raise Violation("cold-start:raised", f"{cfg['kind']} job {i} {jobs[i]['op']} raised {e} in a fresh process under schedule {out['trace']}")
        if r != x:
            raise Violation(f"cold-start-interleaving-dependent:{jobs[i]['op']}",
                            f"{cfg['kind']} job {i} {jobs[i]['op']} in a FRESH process under schedule {out['trace']} (of {total} steps): {r!r} != sequential {x!r}"[:1200])
    return out


def check_cold(case, ctx):
    out = run_cold(case, "replay")
    ctx.called(2 * len(case["jobs"]))
    ctx.nontrivial_if(out["switches"] >= 1)


def cold_custom(ctx, seed, tier, shard, nshards, n):
    from hypothesis import HealthCheck, given, settings
    from hypothesis import seed as hseed

    cases = []

    @hseed(seed)
    @settings(max_examples=n, database=None, deadline=None, suppress_health_check=list(HealthCheck))
    @given(interleaving_cases(min_pre=1), st.booleans(), st.lists(st.integers(0, 3), min_size=2, max_size=4))
    def collect(c, predictions_only, targets):
        if predictions_only:
            # first-use initialisation mostly sits behind the prediction functions: all jobs predict, with different player counts
            ops = ["predict_draw", "predict_rank", "predict_win"]
            c["jobs"] = [dict(j, op=ops[(i + targets[0]) % 3]) for i, j in enumerate(c["jobs"])]
            for j in c["jobs"]:
                j.pop("call", None)
        c["on_write"] = [t % len(c["jobs"]) for t in targets]  # preempt right after each of the first shared writes
        cases.append(c)

    collect()
    for k, case in enumerate(cases):
        ctx.begin(case)
        try:
            out = run_cold(case, f"{shard}-{k}")
        except Violation as v:
            v.case = case
            raise
        ctx.called(2 * len(case["jobs"]))
        _SWEEPS["cold"] += 1 if out.get("touches", 0) > 0 and len(case["jobs"]) > 1 else 0
        if out.get("touches", 0) > 0 and len(case["jobs"]) > 1 and _SWEEPS["cold"] <= 6:
            # first-use code that touches process-wide state was executed: ONE preemption at each of its first steps, each in its own fresh child
            for kk in range(min(out["touches"], 10)):
                case2 = dict(case, preemptions=[], on_write=[], on_touch=[None] * kk + [1 + kk % (len(case["jobs"]) - 1)])
                try:
                    run_cold(case2, f"{shard}-{k}-t{kk}")
                except Violation as v:
                    v.case = case2
                    raise
                ctx.called(len(case["jobs"]))
            ctx.label("systematic-shared-state-sweep")
        ctx.label(f"switches:{min(out['switches'], 6)}", "ops:" + "+".join(sorted(set(j["op"] for j in case["jobs"]))))
        ctx.nontrivial_if(out["switches"] >= 1)
        ctx.end()


# ------------------------------------------------------------------------------------------------
# clause 6 (thorough only): free-running threads; can only add violations
# ------------------------------------------------------------------------------------------------
# ------------------------------------------------------------------------------------------------
# clause 7: a long-running service (one process, one model, thousands of calls, recurring line-ups)
# ------------------------------------------------------------------------------------------------
SERVICE_CHECKPOINTS = [150, 1100, 4200, 8500, 17000, 33500, 66500]  # just past 128, 1024, 4096, 8192, ... : the capacities bounded tables have


def run_service(spec, tag, judge=True):
    here = os.path.dirname(os.path.dirname(os.path.dirname(os.path.abspath(__file__))))
    work = os.path.join(here, ".work", f"c14-service-{os.getpid()}-{tag}")
    os.makedirs(work, exist_ok=True)
    path = os.path.join(work, "spec.json")
    with open(path, "w") as f:
        json.dump(spec, f)
    try:
        p = subprocess.run([sys.executable, "-B", "-m", "vf.servicechild", path], capture_output=True, text=True, timeout=3000)
    finally:
        try:
            os.remove(path)
            os.rmdir(work)
        except OSError:
            pass
    if p.returncode != 0:
        raise HarnessError(f"service child failed: {p.stderr[-2000:]}")
    out = json.loads(p.stdout)
    if out["mismatches"] and judge:
        m = out["mismatches"][0]
        job = spec["recurring"][m["index"]]
        raise Violation(f"service:recurring-call-changed:{job['op']}",
                        f"{spec['cfg']['kind']}: {job['op']}({job.get('call', {})}) on {job['teams']} returned {m['first']!r} as one of the first calls of the process and "
                        f"{m['now']!r} after {m['after']} other calls ({m['model']} model)"[:1200])
    return out


def check_service(spec, ctx):
    out = run_service(spec, "replay")
    ctx.called(out["fillers"])
    ctx.nontrivial_if(out["fillers"] >= 4200)


def service_custom(ctx, seed, tier, shard, nshards, n):
    from hypothesis import HealthCheck, given, settings
    from hypothesis import seed as hseed

    specs = []
    K = 9000 if tier == "quick" else 70000

    @hseed(seed)
    @settings(max_examples=n + 1, database=None, deadline=None, suppress_health_check=list(HealthCheck))
    @given(st.data())
    def collect(data):
        cfg = data.draw(gen.configs())
        rec = [data.draw(jobs_for(cfg, max_teams=4, max_size=3)) for _ in range(data.draw(st.integers(4, 10)))]
        # the line-ups every service sees again and again: newcomers on default ratings, 1 v 1 and 2 v 2, win and draw
        d = [cfg["mu"], cfg["sigma"]]
        rec.insert(0, {"op": "rate", "teams": [[list(d)], [list(d)]], "call": {"ranks": [0, 0]}})
        rec.append({"op": "rate", "teams": [[list(d), list(d)], [list(d), list(d)]], "call": {"scores": [83.0, 71.0]}})
        rec.append({"op": data.draw(st.sampled_from(["predict_win", "predict_draw", "predict_rank"])), "teams": [[list(d)], [list(d)], [list(d)]]})
        specs.append({"cfg": cfg, "recurring": rec, "prng": data.draw(st.integers(0, 2 ** 32 - 1)), "K": K, "checkpoints": [c for c in SERVICE_CHECKPOINTS if c <= K]})

    collect()
    # Hypothesis starts every run with its simplest example: the same one in every shard.  Shard 0 keeps it, the others drop it.
    specs = specs[:n] if shard == 0 else specs[1:n + 1]
    for k, spec in enumerate(specs):
        ctx.begin(spec)
        try:
            out = run_service(spec, f"{shard}-{k}")
        except Violation as v:
            v.case = spec
            raise
        ctx.called(out["fillers"] + len(spec["recurring"]) * len(spec["checkpoints"]))
        ctx.label("kind:" + spec["cfg"]["kind"], f"fillers:{out['fillers']}", "fillers-that-raised:" + ("0" if not out["raised"] else ">0"))
        ctx.nontrivial_if(out["fillers"] >= 4200)
        ctx.end()


def stress_custom(ctx, seed, tier, shard, nshards, n):
    from hypothesis import HealthCheck, given, settings
    from hypothesis import seed as hseed

    cases = []

    @hseed(seed)
    @settings(max_examples=n, database=None, deadline=None, suppress_health_check=list(HealthCheck))
    @given(interleaving_cases())
    def collect(c):
        cases.append(c)

    collect()
    old = sys.getswitchinterval()
    sys.setswitchinterval(1e-6)
    try:
        for case in cases:
            cfg, jobs = case["cfg"], case["jobs"]
            ctx.begin(case)
            expected = [guarded_job(mk_model(cfg), job, "sequential") for job in jobs]
            shared = mk_model(cfg)
            bad = []
            barrier = threading.Barrier(2 * len(jobs))

            def worker(job, exp):
                barrier.wait()
                for _ in range(5):
                    try:
                        r = run_job(shared, job)
                    except Exception as e:  # noqa: BLE001
                        bad.append((job, repr(e)))
                        return
                    if r != exp:
                        bad.append((job, r, exp))
                        return

            ths = [threading.Thread(target=worker, args=(job, exp), daemon=True) for job, exp in zip(jobs, expected)] * 1
            ths += [threading.Thread(target=worker, args=(job, exp), daemon=True) for job, exp in zip(jobs, expected)]
            for t in ths:
                t.start()
            for t in ths:
                t.join(120)
                if t.is_alive():
                    raise HarnessError("stress thread did not finish")
            ctx.called(10 * len(jobs))
            if bad:
                v = Violation("free-running-threads", f"{cfg['kind']}: {bad[0]!r}"[:900])
                v.case = case
                raise v
            ctx.nontrivial_if(True)
            ctx.end()
    finally:
        sys.setswitchinterval(old)


PROPERTY = Property(
    pid="C14",
    clauses=[
        Clause(name="no-attribute-change", strategy=attr_cases(), check=check_attrs, quick=1500, thorough=30000,
               rule="1-3 valid calls (rate with per-call options / predicts) and up to 6 rejected calls of the C13 grammar on one model; vars(model) compared "
                    "before/after each; non-trivial = a rate call with a per-call tau or limit_sigma"),
        Clause(name="history-independence", kind="stateful", machine=machine_factory(SharedModelHistory), check=replayer(SharedModelHistory),
               quick=320, thorough=6000, steps_quick=30, steps_thorough=100,
               rule="rule-based machine: a sequence of rate/predict calls with arbitrary per-call options on ONE model; every result bit-identical to the "
                    "same call on a freshly built model; non-trivial = a rate step whose predecessor used different per-call options"),
        Clause(name="identity-independence", strategy=identity_cases(), check=check_identity, quick=1500, thorough=30000,
               rule="same values under different names / ids / object identities / construction paths / previously seen ids; non-trivial = rate or >= 3 teams"),
        Clause(name="scheduled-interleavings", strategy=interleaving_cases(), check=check_interleaving, quick=3000, thorough=100000,
               rule="2-4 jobs on one shared model, each in its own thread, interleaved at source-line granularity (a quarter of the cases: at BYTECODE granularity) by a generated schedule "
                    "of <= 6 preemption points (sys.settrace + semaphores: one runnable thread at a time); every job's result bit-identical to its solo run; "
                    "non-trivial = at least one preemption took place while the preempted job was inside openskill code"),
        Clause(name="hash-seed-and-call-order", kind="custom", custom=hashseed_custom, check=check_hashcase, quick=400, thorough=4000, shards_quick=4, shards_thorough=16,
               rule="generated calls (some duplicated under a model with another beta) serialised and executed in five fresh child interpreters, each with its own "
                    "PYTHONHASHSEED (0, 1, 2, 4242, random) and its own execution order (forward, reverse, rotated, evens-first); results compared exactly per call"),
        Clause(name="cold-start-interleavings", kind="custom", custom=cold_custom, check=check_cold, quick=256, thorough=4800, shards_quick=16, shards_thorough=16,
               rule="the same generated job sets and schedules, each executed in a FRESH child interpreter in which nothing has been called before "
                    "(lazily filled module- or class-level tables, first-use initialisation): results compared with the sequential ones; non-trivial = a "
                    "real preemption took place"),
        Clause(name="long-running-service", kind="custom", custom=service_custom, check=check_service, quick=32, thorough=128, shards_quick=16, shards_thorough=16,
               rule="ONE fresh child interpreter and ONE long-lived model per case: 7-13 recurring calls (generated ones + newcomers on default ratings) "
                    "are the first calls of the process; then 9 000 (quick) / 70 000 (thorough) filler calls with ever new line-ups, scorelines and options "
                    "expanded from a Hypothesis-drawn PRNG seed; at the checkpoints 150, 1 100, 4 200, 8 500, 17 000, 33 500, 66 500 (just past the "
                    "capacities bounded tables have) the recurring calls are repeated on the same model and must return exactly what they returned at "
                    "the start, and finally on a new model instance in the same process; non-trivial = at least 4 200 fillers ran"),
        Clause(name="free-running-threads", kind="custom", custom=stress_custom, quick=0, thorough=400, shards_thorough=4,
               rule="sampled (OS-scheduled) stress: 2k threads x 5 repetitions on one model with switch interval 1e-6; can only add violations"),
    ],
    rule="generated call sequences / job sets / schedules on a shared model, each compared bit for bit with the same call on a fresh model; "
         "non-trivial per clause (per-call options used; option change between consecutive steps; >= 1 real preemption); distinct by SHA-1. Histories include "
         "earlier calls that did not complete normally (out-of-range values, a gamma callback that raises part-way, corrupt rating values, wrongly typed options, "
         "malformed arguments); schedules include preemptions right after shared writes and a bound-1 sweep inside functions that touch process-wide state; "
         "fresh child interpreters vary hash seed, call order and repetition, run cold-start interleavings followed by probe calls, and a long-running service "
         "(recurring calls unchanged after 9 000 / 70 000 generated calls through one model)",
    assumptions=[
        "what a call that raises does itself is not judged here (C13 owns rejected calls): only the valid calls that follow it",
        "the long-running service reaches bounded tables of up to ~8 000 (quick) / ~66 000 (thorough) entries; larger capacities are out of its reach",
        "interleavings are controlled at source-line granularity (a quarter of the cases at bytecode granularity) with <= 6 preemptions and <= 4 threads",
        "valid calls only use each rating object in one slot (a rating object shared by two slots of one game is not generated)",
        "the free-running-threads clause is sampled, OS-scheduled and therefore only ever additional",
    ],
)
