"""C05 — direction of learning: winning never costs mu, losing never earns it."""
from __future__ import annotations

import math
import sys

from hypothesis import strategies as st

from vf import dense, gen
from vf.budget import Budget
from vf.core import Clause, Property, Violation
from vf.osk import IS_PART, IS_TM, eff_tau, observed_or_rate, outcome_values, rate_values
from vf.league import league_class
from vf.stateful import machine_factory, replayer


EPS = sys.float_info.epsilon


def floor_mu(a, b):
    return 4 * EPS * (abs(a) + abs(b))


def fam(kind):
    return "TM" if kind in IS_TM else kind


# ------------------------------------------------------------------------------------------------
# (a) first / last place, same direction, proportional to own variance
# ------------------------------------------------------------------------------------------------
def check_a(case, ctx):
    cfg, teams, call = case["cfg"], case["teams"], case["call"]
    kind = cfg["kind"]
    n = len(teams)
    values = outcome_values(n, call)
    tau = eff_tau(cfg, call)
    res = observed_or_rate(case, ctx)
    for lab in gen.game_labels(case):
        ctx.label(lab)
    bud = Budget(kind, teams, values, cfg["beta"], cfg["kappa"], tau)
    if kind in IS_TM and bud.max_abs_x >= 5:
        ctx.label("tm:max|x|>=5")
    for i in range(n):
        alone_first = all(values[i] < values[q] for q in range(n) if q != i)
        alone_last = all(values[i] > values[q] for q in range(n) if q != i)
        dm = []
        for j, (p, r) in enumerate(zip(teams[i], res[i])):
            d = r[0] - p[0]
            fl = floor_mu(p[0], r[0])
            dm.append((d, fl))
            if alone_first and d < -fl:
                raise Violation(f"first-place-lost-mu:{fam(kind)}", f"{kind} call={call}: team {i} alone in first place, player {j} mu {p[0]!r} -> {r[0]!r}")
            if alone_last and d > fl:
                raise Violation(f"last-place-gained-mu:{fam(kind)}", f"{kind} call={call}: team {i} alone in last place, player {j} mu {p[0]!r} -> {r[0]!r}")
        # same direction
        pos = [j for j, (d, fl) in enumerate(dm) if d > fl]
        neg = [j for j, (d, fl) in enumerate(dm) if d < -fl]
        if pos and neg:
            raise Violation(f"members-move-opposite:{fam(kind)}", f"{kind} call={call}: team {i}: players {pos} gained and {neg} lost mu")
        # proportional to own tau-inflated variance
        if len(teams[i]) > 1:
            ratios = []
            for j, (p, r) in enumerate(zip(teams[i], res[i])):
                v = p[1] * p[1] + tau * tau
                ratios.append((dm[j][0] / v, dm[j][1] / v))
            ref = max(ratios, key=lambda x: abs(x[0]))
            for j, (rt, fl) in enumerate(ratios):
                tol = fl + ref[1] + 1e-9 * abs(ref[0])
                if abs(rt - ref[0]) > tol:
                    raise Violation(f"not-proportional-to-variance:{fam(kind)}",
                                    f"{kind} call={call}: team {i}: dmu/sigma~^2 of player {j} = {rt!r}, of the reference member = {ref[0]!r} (tol {tol:.3e})")
    sig_unequal = any(len(set(p[1] for p in t)) > 1 for t in teams)
    ctx.nontrivial_if(n >= 3 and sig_unequal)


def check_a_dense(case, ctx):
    check_a(case, ctx)
    ctx.nontrivial_if(abs(case["meta"]["x"]) >= 3.0)


# ------------------------------------------------------------------------------------------------
# (b) two teams: loss <= draw <= win, prior between loss and win, draw does not raise the stronger team
# ------------------------------------------------------------------------------------------------
def check_b(case, ctx):
    cfg, teams, opts = case["cfg"], case["teams"], case["opts"]
    kind = cfg["kind"]
    tau = eff_tau(cfg, opts)
    win = rate_values(cfg, teams, dict(opts, ranks=[1, 2]), ctx)
    draw = rate_values(cfg, teams, dict(opts, ranks=[1, 1]), ctx)
    loss = rate_values(cfg, teams, dict(opts, ranks=[2, 1]), ctx)
    bud = Budget(kind, teams, [0, 0], cfg["beta"], cfg["kappa"], tau)
    x = abs(bud.tmu[0] - bud.tmu[1]) / math.sqrt(bud.tvar[0] + bud.tvar[1] + 2 * cfg["beta"] ** 2)
    ctx.label("kind:" + kind, "|x|:" + ("<1" if x < 1 else "1-3" if x < 3 else "3-5" if x < 5 else "5-8.3" if x <= 8.3 else ">8.3"))
    for i in range(2):
        # outcomes seen from team i: team 0 wins under `win`, team 1 wins under `loss`
        w_i, l_i = (win, loss) if i == 0 else (loss, win)
        c = bud.c_of[(i, 1 - i)] if kind in IS_TM else 1.0
        for j, p in enumerate(teams[i]):
            mw, md, ml = w_i[i][j][0], draw[i][j][0], l_i[i][j][0]
            fl = 4 * EPS * (abs(p[0]) + abs(mw) + abs(md) + abs(ml))
            if not (ml <= md + fl and md <= mw + fl):
                raise Violation(f"loss<=draw<=win:{fam(kind)}", f"{kind} |x|={x:.3f}: team {i} player {j}: loss {ml!r}, draw {md!r}, win {mw!r} (prior {p[0]!r})")
            if not (ml <= p[0] + fl and p[0] <= mw + fl):
                raise Violation(f"prior-between-loss-and-win:{fam(kind)}", f"{kind} |x|={x:.3f}: team {i} player {j}: loss {ml!r}, prior {p[0]!r}, win {mw!r}")
            # the draw
            share = bud.share(i, j)
            allow = share * bud.tvar[i] * cfg["kappa"] / (c * c) if kind in IS_TM else 0.0
            allow = allow * (1 + 1e-9) + fl
            if bud.tmu[i] > bud.tmu[1 - i] and md > p[0] + allow:
                raise Violation(f"draw-raised-stronger:{fam(kind)}", f"{kind} |x|={x:.3f}: stronger team {i} player {j}: prior {p[0]!r} -> draw {md!r} (allowance {allow:.3e})")
            if bud.tmu[i] < bud.tmu[1 - i] and md < p[0] - allow:
                raise Violation(f"draw-lowered-weaker:{fam(kind)}", f"{kind} |x|={x:.3f}: weaker team {i} player {j}: prior {p[0]!r} -> draw {md!r} (allowance {allow:.3e})")
    ctx.nontrivial_if(True if x >= 3 else bud.tmu[0] != bud.tmu[1])


@st.composite
def cases_b_dense(draw):
    g = draw(dense.two_team_sweep(outcomes=("win",)))
    return {"cfg": g["cfg"], "teams": g["teams"], "opts": {k: v for k, v in g["call"].items() if k in ("tau", "limit_sigma")}, "meta": g["meta"]}


@st.composite
def cases_b(draw):
    g = draw(gen.games(max_teams=2, regimes=["targeted", "targeted", "generic", "near_equal", "identical", "corner"], enc_kinds=["int"]))
    return {"cfg": g["cfg"], "teams": g["teams"][:2], "opts": {k: v for k, v in g["call"].items() if k in ("tau", "limit_sigma")}, "meta": g["meta"]}


# ------------------------------------------------------------------------------------------------
# (c) exchanging places with a better-placed team never lowers a team's posterior mu (PL, full pairing; no ties)
# ------------------------------------------------------------------------------------------------
def check_c(case, ctx):
    cfg, teams, opts = case["cfg"], case["teams"], case["opts"]
    kind = cfg["kind"]
    order = case["order"]  # strict: order[i] = place of team i
    n = len(teams)
    i, k = case["i"] % n, case["k"] % n
    if i == k:
        k = (k + 1) % n
    if order[i] < order[k]:
        i, k = k, i  # i is the worse-placed one
    before = rate_values(cfg, teams, dict(opts, ranks=list(order)), ctx)
    swapped = list(order)
    swapped[i], swapped[k] = swapped[k], swapped[i]
    after = rate_values(cfg, teams, dict(opts, ranks=swapped), ctx)
    bud = Budget(kind, teams, order, cfg["beta"], cfg["kappa"], eff_tau(cfg, opts))
    for j, p in enumerate(teams[i]):
        a, b = after[i][j][0], before[i][j][0]
        fl = floor_mu(a, b) + 64 * EPS * bud.share(i, j) * bud.S[i]
        if a < b - fl:
            raise Violation(f"better-place-lowered-mu:{fam(kind)}",
                            f"{kind}: team {i} moves from place {order[i]} to {order[k]} (exchanging with team {k}); player {j} posterior mu {b!r} -> {a!r}")
    ctx.label("kind:" + kind, f"n:{n}")
    ctx.nontrivial_if(n >= 3)


@st.composite
def cases_c(draw):
    g = draw(gen.games(kinds=["PL", "BTF", "TMF"], max_teams=8, max_size=4, enc_kinds=["int"], order_shapes=("none",),
                       regimes=["targeted", "targeted", "generic", "near_equal", "identical", "corner"]))
    return {"cfg": g["cfg"], "teams": g["teams"], "opts": {k: v for k, v in g["call"].items() if k in ("tau", "limit_sigma")},
            "order": g["classes"], "i": draw(st.integers(0, 7)), "k": draw(st.integers(0, 7)), "meta": g["meta"]}


# ------------------------------------------------------------------------------------------------
# (d) identical teams end with mu ordered by finishing place
# ------------------------------------------------------------------------------------------------
def _pair_gap_estimate(kind, bud, a, b, order, cfg):
    """A float lower estimate of Omega_a - Omega_b for identical teams a (better) and b (worse): used only to decide whether
    strictness is resolvable in double precision."""
    n = len(order)
    if kind == "PL":
        c = bud.c
        e = [math.exp(m / c) for m in bud.tmu]
        tot = 0.0
        for q in range(n):
            if order[a] < order[q] <= order[b]:
                sq = math.fsum(e[s] for s in range(n) if order[s] >= order[q])
                tot += e[a] / sq
        return bud.tvar[a] / c * tot
    c = math.sqrt(2 * bud.tvar[a] + 2 * cfg["beta"] ** 2)
    return bud.tvar[a] / c * (1.0 if kind == "BTF" else 1.5)


def check_d(case, ctx):
    cfg, teams, opts, order = case["cfg"], case["teams"], case["opts"], case["order"]
    kind = cfg["kind"]
    n = len(teams)
    res = rate_values(cfg, teams, dict(opts, ranks=list(order)), ctx)
    bud = Budget(kind, teams, order, cfg["beta"], cfg["kappa"], eff_tau(cfg, opts))
    all_identical = all(t == teams[0] for t in teams)
    strict_models = kind not in IS_PART
    checked = 0
    for a in range(n):
        for b in range(n):
            if a == b or teams[a] != teams[b] or not order[a] < order[b]:
                continue
            if not all_identical and not strict_models:
                continue  # (d') is asserted for PL / full pairing only (DESIGN.md C05: reading chosen)
            checked += 1
            jmax = max(range(len(teams[a])), key=lambda j: teams[a][j][1])
            for j in range(len(teams[a])):
                ma, mb = res[a][j][0], res[b][j][0]
                fl = floor_mu(ma, mb) + 64 * EPS * bud.share(a, j) * max(bud.S[a], bud.S[b])
                if ma < mb - fl:
                    raise Violation(f"identical-teams-misordered:{fam(kind)}",
                                    f"{kind} order={order}: identical teams {a} (place {order[a]}) and {b} (place {order[b]}): player {j} ends {ma!r} < {mb!r}")
                if strict_models and j == jmax:
                    gap = bud.share(a, j) * _pair_gap_estimate(kind, bud, a, b, order, cfg)
                    if gap > 1e3 * fl and not ma > mb:
                        raise Violation(f"identical-teams-not-strict:{fam(kind)}",
                                        f"{kind} order={order}: identical teams {a} (place {order[a]}) and {b} (place {order[b]}): player {j} ends {ma!r} vs {mb!r}, "
                                        f"expected a strict gap of about {gap:.3e}")
    ctx.label("kind:" + kind, f"n:{n}", "all-identical" if all_identical else "identical-pair-among-others")
    ctx.nontrivial_if(n >= 3 and checked > 0)


@st.composite
def cases_d(draw):
    mode = draw(st.sampled_from(["all", "all", "pair"]))
    if mode == "all":
        g = draw(gen.games(max_teams=8, max_size=4, enc_kinds=["int"], order_shapes=("none",), regimes=["identical"]))
        teams = [[list(p) for p in g["teams"][0]] for _ in g["teams"]]  # identical member lists, same member order
    else:
        g = draw(gen.games(kinds=["PL", "BTF", "TMF"], max_teams=8, max_size=4, enc_kinds=["int"], order_shapes=("none",),
                           regimes=["generic", "targeted", "corner"]))
        teams = g["teams"]
        n = len(teams)
        a = draw(st.integers(0, n - 1))
        b = draw(st.integers(0, n - 2))
        b = b + 1 if b >= a else b
        teams[b] = [list(p) for p in teams[a]]
    return {"cfg": g["cfg"], "teams": teams, "opts": {k: v for k, v in g["call"].items() if k in ("tau", "limit_sigma")}, "order": g["classes"], "meta": g["meta"]}


STRAT_A = gen.games(regimes=["targeted", "targeted", "targeted", "generic", "corner", "near_equal", "identical", "dyadic"])

LEAGUE = league_class("C05League", ("direction",), "C05")

PROPERTY = Property(
    pid="C05",
    clauses=[
        Clause(name="a-first-last-direction-proportional", strategy=STRAT_A, check=check_a, quick=5000, thorough=100000,
               rule="any game; non-trivial = >= 3 teams and a team whose members have unequal sigma"),
        Clause(name="a-dense-two-team-sweep", strategy=dense.two_team_sweep(), check=check_a_dense, quick=8000, thorough=300000,
               rule="clause (a) on two-team games with the standardised gap drawn uniformly from [-10, 10]; non-trivial = |x| >= 3"),
        Clause(name="b-two-team-win-draw-loss", strategy=cases_b(), check=check_b, quick=4000, thorough=80000,
               rule="two teams rated three times (win / draw / loss); non-trivial = |x| >= 3 mismatch or unequal team totals"),
        Clause(name="b-dense-two-team-sweep", strategy=cases_b_dense(), check=check_b, quick=8000, thorough=300000,
               rule="clause (b) with the standardised gap drawn uniformly from [-10, 10]; non-trivial = |x| >= 3 or unequal totals"),
        Clause(name="c-exchange-with-better-placed", strategy=cases_c(), check=check_c, quick=3000, thorough=60000,
               rule="tie-free game under PL / full pairing, one team exchanges places with a better-placed one; non-trivial = >= 3 teams"),
        Clause(name="d-identical-teams-ordered", strategy=cases_d(), check=check_d, quick=3000, thorough=60000,
               rule="tie-free game among all-identical teams (all five models; strict except partial pairing) or an identical pair among arbitrary others "
                    "(PL / full pairing); non-trivial = >= 3 teams"),
        Clause(name="a-league-history", kind="stateful", machine=machine_factory(LEAGUE), check=replayer(LEAGUE),
               quick=320, thorough=6000, steps_quick=30, steps_thorough=120,
               rule="clause (a) after every game of a league history: 5-12 rating objects on one model, returned or passed-in objects fed back, "
                    "the returned list rated again, predictions interleaved, any outcome encoding / per-call options; non-trivial = >= 8 games "
                    "with some player in >= 4"),
    ],
    rule="generated games (half of them with a pair constructed at a 5-9 sigma gap) rated under one or several outcomes; sign / order invariants on posterior mu "
         "with only the rounding floor 4 eps (|mu|+|mu'|) (+64 eps of the summands where two sums are compared), TM draw-margin allowance as stated; "
         "non-trivial per clause; distinct by SHA-1",
    assumptions=[
        "'identical teams' is read as: a game among all-identical teams (all models), plus any identical pair for PL / full pairing; a neighbour-only update "
        "cannot order an identical pair among arbitrary others (DESIGN.md C05)",
        "strictness is asserted only where the expected gap exceeds 1000x the rounding floor (a member whose update is below one ulp cannot be strictly ordered)",
    ],
)

from vf import opt as _opt  # noqa: E402

PROPERTY.clauses.append(_opt.optimised("C05", next(c for c in PROPERTY.clauses if c.name == "a-first-last-direction-proportional"), quick=64, thorough=640))
