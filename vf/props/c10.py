"""C10 — predict_draw is a probability, symmetric, and largest for evenly matched teams."""
from __future__ import annotations

import math
import sys

from hypothesis import strategies as st

from vf.core import Clause, Property, Violation
from vf.osk import guarded, mk_model, mk_teams, model_for
from vf.predgen import pred_cases, pred_labels

EPS = sys.float_info.epsilon
FL = 16 * EPS


def pd(cfg, teams, ctx, case=None):
    m = model_for(cfg, case or {})
    ctx.called()
    return guarded(m.predict_draw, mk_teams(m, teams), what="predict_draw")


def check_c10(case, ctx):
    cfg, teams = case["cfg"], case["teams"]
    kind = cfg["kind"]
    beta = cfg["beta"]
    n = len(teams)
    d = pd(cfg, teams, ctx, case)  # the base call: on a model that may have been through a failed call (prelude)
    for lab in pred_labels(case):
        ctx.label(lab)
    if not (isinstance(d, (int, float)) and not isinstance(d, bool) and math.isfinite(d) and -1e-12 <= d <= 1 + 1e-12):
        raise Violation("range", f"{kind}: predict_draw = {d!r} for {n} teams")
    ctx.maxi("value", d)
    perm = case["perm"]
    pp = case["player_perms"]
    d2 = pd(cfg, [[teams[k][j] for j in pp[k]] for k in perm], ctx)
    if abs(d2 - d) > 1e-12:
        raise Violation("permutation", f"{kind}: {d!r} vs {d2!r} when teams are listed as {perm} and players as {pp}")
    # ids and names are not part of a rating's value: the same teams with every rating carrying one shared id give the same number
    m_same = mk_model(cfg)
    objs = mk_teams(m_same, teams)
    for t in objs:
        for pl in t:
            pl.id = "shared-id"
            pl.name = "clone"
    ctx.called()
    d_same = guarded(m_same.predict_draw, objs, what="predict_draw (shared ids)")
    if d_same != d:
        raise Violation("depends-on-ids", f"{kind}: predict_draw = {d!r}, but {d_same!r} when all ratings carry the same id (clones of one template rating)")
    tot = [math.fsum(p[0] for p in t) for t in teams]
    if n == 2:
        # widen the gap: add delta to a member of the stronger team (or subtract from the weaker one)
        s = 0 if tot[0] >= tot[1] else 1
        which = s if case["widen_stronger"] else 1 - s
        sign = 1.0 if case["widen_stronger"] else -1.0
        j = case["player"] % len(teams[which])
        new_mu = teams[which][j][0] + sign * case["delta"]
        if new_mu != teams[which][j][0] and abs(new_mu) <= 20 * beta:
            t3 = [[list(q) for q in t] for t in teams]
            t3[which][j][0] = new_mu
            d3 = pd(cfg, t3, ctx)
            if d3 > d + FL:
                raise Violation("two-team-gap-monotone", f"{kind}: widening the gap ({tot[0]!r} vs {tot[1]!r}; player {which},{j} {sign * case['delta']:+}) raised predict_draw {d!r} -> {d3!r}")
            ctx.label("gap-widened")
    # equalise all team totals (sigmas unchanged): to the median total, the shift spread over the members
    t4 = [[list(q) for q in t] for t in teams]
    ok = True
    target = sorted(tot)[n // 2]
    for i in range(n):
        shift = (target - tot[i]) / len(t4[i])
        for q in t4[i]:
            q[0] += shift
            if abs(q[0]) > 20 * beta:
                ok = False
        # remove the rounding residue on one member so that the totals agree to an ulp
        resid = target - math.fsum(q[0] for q in t4[i])
        t4[i][case["player"] % len(t4[i])][0] += resid
    if ok:
        d4 = pd(cfg, t4, ctx)
        if d4 < d - FL:
            raise Violation("equalising-lowers", f"{kind}: equalising all team totals lowered predict_draw {d!r} -> {d4!r} (totals {tot})")
        ctx.label("equalised")
    else:
        ctx.exclude("equalised game leaves the mu range")
    ctx.nontrivial_if(len(set(tot)) > 1)
    if n == 2 and sum(len(t) for t in teams) == 2:
        ctx.label("1v1")


@st.composite
def cases(draw):
    mode = draw(st.integers(0, 9))
    if mode <= 1:
        c = draw(pred_cases(max_teams=2, max_size=1, regimes=("near_equal", "identical", "corner", "generic")))
    elif mode <= 3:
        c = draw(pred_cases(max_teams=2))
    else:
        c = draw(pred_cases())
    n = len(c["teams"])
    beta = c["cfg"]["beta"]
    c["perm"] = list(draw(st.permutations(list(range(n)))))
    c["player_perms"] = [list(draw(st.permutations(list(range(len(t)))))) for t in c["teams"]]
    c["widen_stronger"] = draw(st.booleans())
    c["player"] = draw(st.integers(0, 7))
    c["delta"] = draw(st.one_of(st.floats(1e-9, 10.0), st.floats(1e-3, 1.0), st.sampled_from([1e-12, 1e-6, 40.0]))) * beta
    return c


PROPERTY = Property(
    pid="C10",
    clauses=[Clause(name="range-symmetry-peak", strategy=cases(), check=check_c10, quick=8000, thorough=150000,
                    rule="one list of teams + drawn permutations + a gap-widening increment; 20 % are 1v1 games with sigma at the lower bound / identical; "
                         "non-trivial = unequal team totals")],
    rule="generated teams (2..8 x 1..8, N up to 64, scale 1e-3..1e3, identical and 1v1 small-sigma cases stressed); oracle: in [0,1] (1e-12 slack), invariant under "
         "team/player permutations (1e-12), two teams: widening the gap never raises it, n teams: equalising all totals never lowers it (16 ulp); distinct by SHA-1",
    assumptions=["equalised games whose shifted member would leave [-20 beta, 20 beta] are excluded (counted)"],
)

from vf import opt as _opt  # noqa: E402

PROPERTY.clauses.append(_opt.optimised("C10", next(c for c in PROPERTY.clauses if c.name == "range-symmetry-peak"), quick=64, thorough=640))
