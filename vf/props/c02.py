"""C02 — rate() result corresponds to its input position by position and player by player."""
from __future__ import annotations

from hypothesis import strategies as st

from vf import gen
from vf.core import Clause, Property, Violation
from vf.osk import IS_TM, eff_limit, eff_tau, mk_model, mk_teams, model_for, outcome_values, rate
from vf.refmodel import compare, reference
from vf.league import league_class
from vf.stateful import machine_factory, replayer

LEAGUE = league_class("C02League", ("slots", "ref"), "C02")



def check_c02(case, ctx):
    cfg, teams, call = case["cfg"], case["teams"], case["call"]
    kind = cfg["kind"]
    n = len(teams)
    model = model_for(cfg, call, teams)
    clones = call.get("clone_ids")  # distinct objects sharing one id (deepcopy clones of a template): only the names tell them apart
    objs = mk_teams(model, teams, names=True, clone_ids=clones)
    ids = [[p.id for p in t] for t in objs]
    names = [[p.name for p in t] for t in objs]
    prior = [[(p.mu, p.sigma) for p in t] for t in objs]
    inputs = [list(t) for t in objs]
    arg = [list(t) for t in objs]
    res = rate(model, arg, call, ctx)
    for lab in gen.game_labels(case):
        ctx.label(lab)

    # (a) shape
    if not isinstance(res, list) or len(res) != n:
        raise Violation("shape:teams", f"{kind}: {n} teams in, {len(res) if hasattr(res, '__len__') else res!r} out")
    for i in range(n):
        if len(res[i]) != len(teams[i]):
            raise Violation("shape:players", f"{kind}: team {i} has {len(teams[i])} players in, {len(res[i])} out")
    # (b) identity
    seen = set()
    for i in range(n):
        for j in range(len(teams[i])):
            r = res[i][j]
            if r.id != ids[i][j] or r.name != names[i][j]:
                where = [(a, b) for a in range(n) for b in range(len(ids[a])) if ids[a][b] == r.id]
                raise Violation("identity:moved" if where else "identity:lost",
                                f"{kind} call={call}: result[{i}][{j}] carries id/name {r.id[:8]}/{r.name}, input slot had {ids[i][j][:8]}/{names[i][j]} (that id was passed at {where})")
            key = (r.id, r.name) if clones else r.id
            if key in seen:
                raise Violation("identity:duplicated", f"{kind}: id {r.id[:8]} ({r.name}) appears twice in the result")
            seen.add(key)
    # (e) all-or-nothing on the objects that were passed in
    touched = [[(p.mu, p.sigma) != prior[i][j] for j, p in enumerate(t)] for i, t in enumerate(inputs)]
    equal_ret = [[(p.mu, p.sigma) == (res[i][j].mu, res[i][j].sigma) for j, p in enumerate(t)] for i, t in enumerate(inputs)]
    all_untouched = not any(any(r) for r in touched)
    all_equal = all(all(r) for r in equal_ret)
    if not (all_untouched or all_equal):
        raise Violation("inputs:mixture", f"{kind} call={call}: passed-in objects are a mixture: touched={touched} equal-to-returned={equal_ret}")
    ctx.label("inputs:untouched" if all_untouched else "inputs:updated-in-place")
    ctx.label("values:all-distinct" if case["meta"].get("distinct_values", True) else "values:identical-players-present")

    # (c) values: each slot holds the posterior of *that* player
    values = outcome_values(n, call)
    tau = eff_tau(cfg, call)
    lim = eff_limit(cfg, call)
    ref, diag = reference(kind, teams, values, cfg["beta"], cfg["kappa"], tau, cfg["gamma"], lim, tmp_factor=2 if kind == "TMP" else 1)
    got = [[(p.mu, p.sigma) for p in t] for t in res]
    if kind in IS_TM and (diag["max_abs_x"] >= 5.0 or not (1e-8 <= diag["t_min"] and diag["t_max"] <= 1e-2)):
        ctx.exclude("tm-tail-or-margin (owned by C01)")
    else:
        ok, wm, ws, bad = compare(got, ref)
        if not ok:
            # which input player's posterior is it, if any?
            raise Violation("values:wrong-slot-or-value",
                            f"{kind} call={call}: result[{bad[0]}][{bad[1]}] = ({bad[2]!r}, {bad[5]!r}) is not the posterior of the player passed there "
                            f"(expected mu {bad[3]} +- {bad[4]}, sigma in [{bad[6]}, {bad[7]}])")

    # (d) differential: the same game presented pre-sorted must give the same per-id values, bit for bit
    order = sorted(range(n), key=lambda i: values[i])
    sorted_vals = [values[i] for i in order]
    m2 = mk_model(cfg)
    objs2 = mk_teams(m2, [teams[i] for i in order])
    call2 = {k: v for k, v in call.items() if k in ("tau", "limit_sigma")}
    tie_free = len(set(sorted_vals)) == n
    if not (tie_free and case["presorted_omit"]):
        call2["ranks"] = sorted_vals
    res2 = rate(m2, objs2, call2, ctx)
    for pos, i in enumerate(order):
        for j in range(len(teams[i])):
            a = (res2[pos][j].mu, res2[pos][j].sigma)
            if a != got[i][j]:
                raise Violation("presorted-differs", f"{kind} call={call}: player {i},{j} gets {got[i][j]!r}, but {a!r} when the game is presented pre-sorted ({call2})")

    sizes = [len(t) for t in teams]
    unsorted = values != sorted(values)
    eq_size_diff = any(sizes[a] == sizes[b] and teams[a] != teams[b] for a in range(n) for b in range(a + 1, n))
    ctx.nontrivial_if(unsorted and eq_size_diff)
    if diag["limit_binding"]:
        ctx.label("limit-binding")


@st.composite
def cases(draw):
    distinct = draw(st.integers(0, 3)) > 0
    g = draw(gen.games(regimes=["generic", "generic", "targeted", "dyadic", "corner"] if distinct else ["identical", "identical", "near_equal", "generic"],
                       order_shapes=("none", "none", "free", "free", "onetie", "all", "identity")))
    beta = g["cfg"]["beta"]
    if distinct:
        # all players pairwise different in value: a value in the wrong slot is visible in the numbers
        seen = set()
        k = 0
        for t in g["teams"]:
            for p in t:
                k += 1
                while (p[0], p[1]) in seen:
                    p[0] = p[0] - k * beta * 2.0 ** -10 if p[0] > 0 else p[0] + k * beta * 2.0 ** -10
                seen.add((p[0], p[1]))
    # else: value-identical players / teams (new players, copies): only ids, names and object identity tell them apart
    g["meta"]["distinct_values"] = distinct
    g["presorted_omit"] = draw(st.booleans())
    return g


PROPERTY = Property(
    pid="C02",
    clauses=[
        Clause(name="slot-correspondence", strategy=cases(), check=check_c02, quick=5000, thorough=100000,
               rule="one rate() call on players with pairwise distinct (mu, sigma), unique names and recorded ids; non-trivial = rank vector not already sorted "
                    "AND two teams of equal size with different member values"),
        Clause(name="league-slot-correspondence", kind="stateful", machine=machine_factory(LEAGUE), check=replayer(LEAGUE),
               quick=320, thorough=6000, steps_quick=30, steps_thorough=120,
               rule="rule-based machine: a league of 5-12 named rating objects on one model, games on drawn partitions, returned or passed-in "
                    "objects fed back, the returned list itself rated again, predictions interleaved; after every game: shape, id and name per "
                    "slot, no duplicates, passed-in objects all untouched or all equal to the returned ones, per-slot value = reference "
                    "posterior of the player passed there; non-trivial = >= 8 games with some player in >= 4"),
    ],
    rule="generated games with all-distinct players; oracle: shape, id/name per slot, no duplicates, per-slot value = mpmath posterior of that very player, "
         "bit-identical agreement with the pre-sorted presentation, passed-in objects all untouched or all equal to the returned ratings; "
         "non-trivial = unsorted ranks and two equal-sized different teams; distinct by SHA-1",
    assumptions=["per-slot values for TM games with a pair beyond 5 sigma are left to C01 (excluded here, counted)"],
)

from vf import opt as _opt  # noqa: E402

PROPERTY.clauses.append(_opt.optimised("C02", next(c for c in PROPERTY.clauses if c.name == "slot-correspondence"), quick=64, thorough=640))
