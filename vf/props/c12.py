"""C12 — predictions equal their documented pairwise-Gaussian closed forms (1e-9 absolute)."""
from __future__ import annotations

from vf import refpredict
from vf.core import Clause, Property, Violation
from vf.gauss import M
from vf.osk import guarded, mk_model, mk_teams, model_for
from vf.predgen import pred_cases, pred_labels

TOL = M("1e-9")


def check_c12(case, ctx):
    cfg, teams = case["cfg"], case["teams"]
    kind = cfg["kind"]
    beta = cfg["beta"]
    n = len(teams)
    m = model_for(cfg, case)
    win = guarded(m.predict_win, mk_teams(m, teams), what="predict_win")
    draw = guarded(m.predict_draw, mk_teams(m, teams), what="predict_draw")
    rank = guarded(m.predict_rank, mk_teams(m, teams), what="predict_rank")
    ctx.called(3)
    for lab in pred_labels(case):
        ctx.label(lab)
    rw = refpredict.predict_win(teams, beta)
    for i in range(n):
        e = abs(M(win[i]) - rw[i])
        ctx.maxi("win abs err", e)
        if e > TOL:
            raise Violation("win:" + ("two-team" if n == 2 else "n-team"), f"{kind} n={n}: predict_win[{i}] = {win[i]!r}, closed form {float(rw[i])!r}")
    rd = refpredict.predict_draw(teams, beta)
    e = abs(M(draw) - rd)
    ctx.maxi("draw abs err", e)
    if e > TOL:
        raise Violation("draw:" + ("two-team" if n == 2 else "n-team"), f"{kind} n={n}: predict_draw = {draw!r}, closed form {float(rd)!r}")
    rp = refpredict.predict_rank_probs(teams, beta)
    for i in range(n):
        e = abs(M(rank[i][1]) - rp[i])
        ctx.maxi("rank-prob abs err", e)
        if e > TOL:
            raise Violation("rank-prob:" + ("two-team" if n == 2 else "n-team"), f"{kind} n={n}: predict_rank[{i}] probability {rank[i][1]!r}, closed form {float(rp[i])!r}")
    # ranks recomputed from the reference probabilities where those are separated by more than the tolerance
    for a in range(n):
        for b in range(n):
            if rp[a] > rp[b] + 2 * TOL and not rank[a][0] < rank[b][0]:
                raise Violation("rank-order-vs-closed-form", f"{kind}: closed-form p[{a}]={float(rp[a])!r} > p[{b}]={float(rp[b])!r} but ranks {rank[a][0]} vs {rank[b][0]}")
    ctx.nontrivial_if(n >= 3)
    if n == 2:
        ctx.label("two-team-special-case")
    if case.get("then_rate"):
        # the ordinary flow: predict, rate (which updates these very objects in place), predict again with the same objects and model:
        # the second prediction must be the closed form of the NEW values
        objs = mk_teams(m, teams)
        first = guarded(m.predict_draw, objs, what="predict_draw")
        guarded(m.predict_rank, objs, what="predict_rank")
        guarded(m.predict_win, objs, what="predict_win")
        res = guarded(m.rate, objs, what="rate", ranks=list(range(n)))
        new_teams = [[[p.mu, p.sigma] for p in t] for t in res]
        again = {"win": guarded(m.predict_win, res, what="predict_win"), "draw": guarded(m.predict_draw, res, what="predict_draw"),
                 "rank": [p for _, p in guarded(m.predict_rank, res, what="predict_rank")]}
        ctx.called(7)
        refs = {"win": refpredict.predict_win(new_teams, beta), "draw": refpredict.predict_draw(new_teams, beta), "rank": refpredict.predict_rank_probs(new_teams, beta)}
        for name in ("win", "rank"):
            for i in range(n):
                if abs(M(again[name][i]) - refs[name][i]) > TOL:
                    raise Violation(f"after-rate:{name}", f"{kind} n={n}: predict_{name}[{i}] after rate() on the same objects = {again[name][i]!r}, closed form of the updated "
                                                          f"ratings {float(refs[name][i])!r}")
        if abs(M(again["draw"]) - refs["draw"]) > TOL:
            raise Violation("after-rate:draw", f"{kind} n={n}: predict_draw after rate() on the same objects = {again['draw']!r} (before: {first!r}), closed form of the updated "
                                               f"ratings {float(refs['draw'])!r}")
        ctx.label("predict-rate-predict")


from hypothesis import strategies as st  # noqa: E402


@st.composite
def cases(draw):
    c = draw(pred_cases())
    c["then_rate"] = draw(st.integers(0, 3)) == 0
    return c


def _svc_recurring(data, cfg):
    from vf import service

    return [{"op": op, "teams": t} for t in service.lineups(data, cfg) for op in ("predict_win", "predict_draw", "predict_rank")]


def _svc_judge(spec, out, ctx):
    from vf import service

    beta = spec["cfg"]["beta"]
    kind = spec["cfg"]["kind"]
    for when in ("first", "last"):
        for job, got in zip(spec["recurring"], out[when]):
            teams, op = job["teams"], job["op"]
            n = len(teams)
            where = f"{kind}: {op} on {n} teams ({'one of the first calls of the process' if when == 'first' else 'after ' + str(out['fillers']) + ' other calls through the same model'})"
            if service.raised(got):
                raise Violation(f"service:{when}:raised", f"{where} raised {got['raised']}")
            if op == "predict_win":
                ref = refpredict.predict_win(teams, beta)
                vals_ = list(got)
            elif op == "predict_draw":
                ref = [refpredict.predict_draw(teams, beta)]
                vals_ = [got]
            else:
                ref = refpredict.predict_rank_probs(teams, beta)
                vals_ = [p for _, p in got]
            for i, (a, b) in enumerate(zip(vals_, ref)):
                if abs(M(a) - b) > TOL:
                    raise Violation(f"service:{when}:{op}", f"{where}: value {i} = {a!r}, closed form {float(b)!r}")


def _svc_judge_all(spec, out, ctx):
    _svc_judge(spec, out, ctx)
    rec2, o2 = [], []
    for m in out.get("mixed", []):
        for op in ("predict_win", "predict_draw", "predict_rank"):
            rec2.append({"op": op, "teams": m["teams"]})
            o2.append(m["results"][op])
    if rec2:
        _svc_judge(dict(spec, recurring=rec2), {"first": o2, "last": o2, "fillers": out["fillers"]}, ctx)


_SVC_CUSTOM, _SVC_CHECK = None, None


def _svc():
    global _SVC_CUSTOM, _SVC_CHECK
    if _SVC_CUSTOM is None:
        from vf import service

        _SVC_CUSTOM, _SVC_CHECK = service.make_clause_functions(_svc_recurring, _svc_judge_all)
    return _SVC_CUSTOM, _SVC_CHECK


PROPERTY = Property(
    pid="C12",
    clauses=[Clause(name="long-running-service", kind="custom", custom=lambda *a: _svc()[0](*a), check=lambda *a: _svc()[1](*a), quick=48, thorough=128,
                    shards_quick=16, shards_thorough=16,
                    rule="one fresh child interpreter and ONE long-lived model per case: the three predictions on 9 recurring line-ups (newcomers on default "
                         "ratings + generated ones) are the first calls of the process, then 9 000 (quick) / 70 000 (thorough) other calls with ever new line-ups, "
                         "then the recurring predictions again: every number, early and late, within 1e-9 of the closed form; non-trivial = at least 4 200 calls in between"),
             Clause(name="closed-forms", strategy=cases(), check=check_c12, quick=4000, thorough=60000,
                    rule="one list of teams; all numbers of predict_win / predict_draw / predict_rank vs a 50-digit evaluation of the stated closed forms; "
                         "non-trivial = >= 3 teams (two-team cases are labelled: they exercise the N-vs-n special case)")],
    rule="generated teams (2..8 x 1..8, all regimes, scale 1e-3..1e3, all five classes); oracle: 1e-9 absolute agreement with mpmath closed forms of C12; "
         "ranks consistent with the closed-form probabilities where those are separated by > 2e-9; distinct by SHA-1",
    assumptions=["predict_rank uses the n-team performance variance n*beta^2 also for n = 2 (the statement's 'same pairwise form')",
                 "inverse CDF evaluated as sqrt(2) erfinv(2p-1) in mpmath"],
)

from vf import opt as _opt  # noqa: E402

PROPERTY.clauses.append(_opt.optimised("C12", next(c for c in PROPERTY.clauses if c.name == "closed-forms"), quick=64, thorough=640))
