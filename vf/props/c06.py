"""C06 — sigma stays positive, grows by at most tau per game, limit_sigma caps it (single calls and league histories)."""
from __future__ import annotations

import math
import random
import sys

from hypothesis import strategies as st

from vf import dense, gen
from vf.core import Clause, Property, Violation
from vf.league import league_class
from vf.osk import IS_TM, call_kwargs, eff_limit, eff_tau, guarded, mk_model, mk_teams, observed_or_rate, rate_values
from vf.stateful import machine_factory, replayer

EPS = sys.float_info.epsilon


def check_single(case, ctx):
    cfg, teams, call = case["cfg"], case["teams"], case["call"]
    tau = eff_tau(cfg, call)
    lim = eff_limit(cfg, call)
    res = observed_or_rate(case, ctx)
    for lab in gen.game_labels(case):
        ctx.label(lab)
    binding = False
    floor = False
    for i, (t, tr) in enumerate(zip(teams, res)):
        for j, (p, pr) in enumerate(zip(t, tr)):
            prior = p[1]
            s = pr[1]
            if not (isinstance(s, (int, float)) and not isinstance(s, bool) and math.isfinite(s)):
                raise Violation("sigma-nonfinite", f"{cfg['kind']} player {i},{j}: posterior sigma {s!r}")
            if not s > 0.0:
                raise Violation("sigma-nonpositive", f"{cfg['kind']} player {i},{j}: posterior sigma {s!r} (prior {prior!r})")
            infl = math.sqrt(prior * prior + tau * tau)
            if s > infl * (1.0 + 4 * EPS):
                raise Violation("sigma-above-tau-bound" + (":tm" if cfg["kind"] in IS_TM else ""),
                                f"{cfg['kind']} player {i},{j}: posterior sigma {s!r} > sqrt(prior^2+tau^2) = {infl!r} (prior {prior!r}, tau {tau!r})")
            if lim:
                if s > prior:
                    raise Violation("sigma-above-prior-with-limit", f"{cfg['kind']} player {i},{j}: limit_sigma in force but sigma {s!r} > prior {prior!r}")
                if s == prior and tau > 0:
                    binding = True
            if infl > 0 and abs(s / infl - math.sqrt(cfg["kappa"])) <= 1e-12:
                floor = True
    if binding:
        ctx.label("limit-binding")
    if floor:
        ctx.label("kappa-floor-binding")
    tm_tail = cfg["kind"] in IS_TM and case["meta"].get("target_x") is not None and 5.0 <= abs(case["meta"]["target_x"]) <= 8.3
    if tm_tail:
        ctx.label("tm-pair-in-5..8.3")
    ctx.nontrivial_if(binding or floor or tm_tail)


# ------------------------------------------------------------------------------------------------
# league histories
# ------------------------------------------------------------------------------------------------
HIST_GAMMAS = ["default", "default", "half_default", "inv_k", "one", "zero", "inv_rank", "inv_size"]


class League:
    def __init__(self, first, ctx):
        self.cfg = first["cfg"]
        self.first = first
        self.reseated = 0
        self.ctx = ctx
        self.model = mk_model(self.cfg)
        self.players = [self.model.rating(p[0], p[1]) for p in first["players"]]
        self.bound_sq = [p[1] * p[1] for p in first["players"]]
        self.games = [0] * len(self.players)
        self.n_games = 0
        self.nontrivial = False
        self.labels = ["kind:" + self.cfg["kind"], "gamma:" + self.cfg["gamma"]]
        self.retired = set()

    @staticmethod
    def init_strategy():
        @st.composite
        def init(draw):
            cfg = draw(gen.configs(gammas=HIST_GAMMAS))
            beta = cfg["beta"]
            n = draw(st.integers(6, 12))
            players = [[draw(st.floats(-3.0, 9.0)) * beta, draw(st.one_of(st.just(2.0), st.floats(0.05, 10.0))) * beta] for _ in range(n)]
            return {"op": "init", "cfg": cfg, "players": players}

        return init()

    def active(self):
        return [i for i in range(len(self.players)) if i not in self.retired]

    def apply(self, step):
        beta = self.cfg["beta"]
        call = step["call"]
        teams_idx = step["teams"]
        objs = [[self.players[i] for i in t] for t in teams_idx]
        prior = {i: self.players[i].sigma for t in teams_idx for i in t}
        tau = eff_tau(self.cfg, call)
        lim = eff_limit(self.cfg, call)
        res = guarded(self.model.rate, objs, what="rate", **call_kwargs(call))
        self.ctx.called()
        self.n_games += 1
        for t, tr in zip(teams_idx, res):
            for i, r in zip(t, tr):
                self.players[i] = r
                self.games[i] += 1
                self.bound_sq[i] += tau * tau
                s = r.sigma
                if not (isinstance(s, (int, float)) and not isinstance(s, bool) and math.isfinite(s) and math.isfinite(r.mu)):
                    raise Violation("history:nonfinite", f"{self.cfg['kind']} game {self.n_games} player {i}: mu={r.mu!r} sigma={s!r}")
                if not s > 0:
                    raise Violation("history:sigma-nonpositive", f"{self.cfg['kind']} game {self.n_games} player {i}: sigma={s!r}")
                if s > math.sqrt(self.bound_sq[i]) * (1 + 1e-12):
                    raise Violation("history:sigma-above-quadrature-bound",
                                    f"{self.cfg['kind']} game {self.n_games} player {i}: sigma={s!r} > sqrt(sigma0^2 + sum tau^2) = {math.sqrt(self.bound_sq[i])!r}")
                if lim and s > prior[i]:
                    raise Violation("history:sigma-increased-with-limit", f"{self.cfg['kind']} game {self.n_games} player {i}: {prior[i]!r} -> {s!r}")
                if s > math.sqrt(prior[i] * prior[i] + tau * tau) * (1 + 4 * EPS):
                    raise Violation("history:sigma-step-above-tau", f"{self.cfg['kind']} game {self.n_games} player {i}: {prior[i]!r} -> {s!r} with tau {tau!r}")
                # leave the valid input domain -> the player is not fed back any more (soundness of later inputs)
                if s < 1e-4 * beta or s > 10 * beta or abs(r.mu) > 20 * beta:
                    # the seat is taken by a new account with the seat's initial values (the old object is never passed again)
                    mu0, sg0 = self.first["players"][i]
                    self.players[i] = self.model.rating(mu0, sg0)
                    self.bound_sq[i] = sg0 * sg0
                    self.reseated += 1
        if self.n_games >= 10 and max(self.games) >= 5:
            self.nontrivial = True

    RULES = {}


def _match(h, min_teams, max_teams, lim=None, tau0=False):
    @st.composite
    def match(draw):
        act = h.active()  # all seats: a player leaving the domain is replaced at once
        order = draw(st.permutations(act))
        n = draw(st.integers(min(min_teams, len(order)), min(max_teams, len(order))))  # retirements may leave fewer active players than the rule prefers
        # cut `order` into n non-empty teams (sizes 1..3)
        sizes = []
        left = len(order)
        for k in range(n):
            mx = min(3, left - (n - k - 1))
            sizes.append(draw(st.integers(1, max(1, mx))))
            left -= sizes[-1]
        teams, pos = [], 0
        for sz in sizes:
            teams.append(list(order[pos:pos + sz]))
            pos += sz
        classes = draw(gen.weak_orders(n))
        frag, _ = draw(gen.encodings(classes, kinds=["int", "float", "scores", "omitted", "mixed"]))
        call = dict(frag)
        opts = draw(gen.call_options(h.cfg))
        for k, v in opts.items():
            if v is not None:
                call[k] = v
        if lim is not None:
            call["limit_sigma"] = lim
        if tau0:
            call["tau"] = 0.0
        return {"op": "play", "teams": teams, "call": call}

    return match()


League.RULES = {
    "play_two_teams": lambda h: _match(h, 2, 2),
    "play_multi": lambda h: _match(h, 3, 5),
    "play_with_limit": lambda h: _match(h, 2, 4, lim=True),
    "play_tau0": lambda h: _match(h, 2, 3, tau0=True),
}


def long_history_custom(ctx, seed, tier, shard, nshards, n):
    """thorough only: n histories of 2 000 games each; matchups expanded from a Hypothesis-drawn integer (no shrinking,
    but the expanded history is what is saved as the replay file)."""
    from hypothesis import HealthCheck, given, settings
    from hypothesis import seed as hseed

    starts = []

    @hseed(seed)
    @settings(max_examples=n, database=None, deadline=None, suppress_health_check=list(HealthCheck))
    @given(League.init_strategy(), st.integers(0, 2 ** 32 - 1))
    def collect(init, s):
        starts.append((init, s))

    collect()
    for init, s in starts:
        rng = random.Random(s)
        hist = [init]
        ctx.begin({"init": init, "prng_seed": s, "games": 2000})
        h = League(init, ctx)
        for _ in range(2000):
            act = h.active()
            if len(act) < 2:
                break
            rng.shuffle(act)
            nt = rng.randint(2, min(4, len(act)))
            teams, pos = [], 0
            for k in range(nt):
                sz = rng.randint(1, max(1, min(2, len(act) - pos - (nt - k - 1))))
                teams.append(act[pos:pos + sz])
                pos += sz
            ranks = [rng.randint(0, nt - 1) for _ in range(nt)]
            call = {"ranks": ranks}
            if rng.random() < 0.2:
                call["limit_sigma"] = rng.random() < 0.7
            if rng.random() < 0.2:
                call["tau"] = rng.choice([0.0, h.cfg["beta"] / 50.0, h.cfg["beta"] * rng.random()])
            step = {"op": "play", "teams": teams, "call": call}
            hist.append(step)
            try:
                h.apply(step)
            except Violation as v:
                v.case = hist
                raise
        ctx.label(f"games:{h.n_games // 500 * 500}+", "reseated:%d+" % (min(h.reseated, 50) // 10 * 10))
        ctx.nontrivial_if(h.n_games >= 1000)
        ctx.end()


OBJ_LEAGUE = league_class("C06ObjectLeague", ("sigma",), "C06")


PROPERTY = Property(
    pid="C06",
    clauses=[
        Clause(name="single-call", strategy=gen.games(), check=check_single, quick=8000, thorough=150000,
               rule="one rate() call; non-trivial = limit_sigma clamp binds, or the kappa floor binds, or a TM pair was constructed at |x| in [5, 8.3]"),
        Clause(name="dense-two-team-sweep", strategy=dense.two_team_sweep(), check=check_single, quick=12000, thorough=400000,
               rule="two-team games whose standardised gap x = dmu / c_iq is drawn UNIFORMLY from [-10, 10] (spacing ~1e-3 in the quick tier, 5e-5 in "
                    "the thorough tier), sigma / beta log-uniform, all three outcomes: same oracle; non-trivial as for single-call"),
        Clause(name="league-history", kind="stateful", machine=machine_factory(League), check=replayer(League),
               quick=160, thorough=3000, steps_quick=50, steps_thorough=300,
               rule="rule-based machine: league of 6-12 players, returned ratings fed back, per-call tau/limit_sigma arbitrary; invariants after every "
                    "game; non-trivial = >= 10 games with some player in >= 5"),
        Clause(name="league-objects-history", kind="stateful", machine=machine_factory(OBJ_LEAGUE), check=replayer(OBJ_LEAGUE),
               quick=320, thorough=6000, steps_quick=30, steps_thorough=120,
               rule="second league machine (vf/league.py): named rating objects on one model, the pool keeps the returned OR the passed-in objects, the "
                    "list a game returned is rated again, predictions interleaved, teams of up to 3 with newcomers next to settled players; the "
                    "single-call bounds after every game and the quadrature bound per player object; non-trivial = >= 8 games with some player in >= 4"),
        Clause(name="long-history", kind="custom", custom=long_history_custom, check=replayer(League), quick=0, thorough=64, shards_thorough=16,
               rule="2 000-game leagues expanded from a Hypothesis-drawn integer; non-trivial = >= 1 000 games played"),
    ],
    rule="single generated rate() calls (all regimes, tau and limit_sigma at model and call level, kappa, gamma >= 0) and generated league histories "
         "with ratings fed back; oracle: sigma finite, > 0, <= sqrt(prior^2 + tau^2) (same float expression, 4 ulp), <= prior under limit_sigma, and "
         "<= sqrt(sigma0^2 + sum tau^2) along a history; non-trivial per clause; distinct by SHA-1",
    assumptions=[
        "a player whose rating leaves the valid input domain (sigma < 1e-4 beta, sigma > 10 beta, |mu| > 20 beta) is replaced by a new account with the seat's initial values",
        "history gammas restricted to callbacks bounded by 1 (a constant gamma of 50 collapses sigma below the domain within a few games)",
    ],
)

from vf import opt as _opt  # noqa: E402

PROPERTY.clauses.append(_opt.optimised("C06", next(c for c in PROPERTY.clauses if c.name == "single-call"), quick=64, thorough=640))
