"""C15 — per-call tau / limit_sigma mean exactly what the model-level setting means (DESIGN.md section 5, C15)."""
from __future__ import annotations

from hypothesis import strategies as st

from vf import gen
from vf.core import Clause, Property, Violation
from vf.league import TwinLeague, twin_class
from vf.osk import mk_model, rate_values
from vf.stateful import machine_factory, replayer


def _cmp(a, b, bucket, what):
    if a != b:
        for i, (ta, tb) in enumerate(zip(a, b)):
            for j, (pa, pb) in enumerate(zip(ta, tb)):
                if pa != pb:
                    raise Violation(bucket, f"{what}: player {i},{j}: {pa!r} != {pb!r}")
        raise Violation(bucket, f"{what}: shapes differ")


def check_c15(case, ctx):
    cfg, teams, base = case["cfg"], case["teams"], case["call"]
    t, b = case["t"], case["b"]
    for lab in gen.game_labels(case):
        ctx.label(lab)
    outcome = {k: v for k, v in base.items() if k in ("ranks", "scores")}
    # games with sigma = 0 players are valid only under a tau > 0: sub-comparisons whose tau in force is 0 are not made for them
    sigma0 = bool(case["meta"].get("sigma0"))
    ok_model_tau = not sigma0 or cfg["tau"] >= 1e-6 * cfg["beta"]
    if sigma0:
        ctx.label("sigma0-team")

    # omitted argument == the model's own setting, passed explicitly
    plain = None
    if ok_model_tau:
        plain = rate_values(cfg, teams, outcome, ctx)
        explicit = rate_values(cfg, teams, dict(outcome, tau=cfg["tau"], limit_sigma=cfg["limit_sigma"]), ctx)
        _cmp(plain, explicit, "omitted-vs-explicit" + (":tau0" if cfg["tau"] == 0 else ""), "rate(g) vs rate(g, tau=model.tau, limit_sigma=model.limit_sigma)")

    # the documented parameter ORDER: rate(teams, ranks, scores, tau, limit_sigma) and Model(mu, sigma, beta, kappa, gamma, tau, limit_sigma)
    # passed positionally mean the same as passed by keyword
    from vf.osk import GAMMAS, classes, guarded, mk_model, mk_teams, vals

    if (t is not None or b is not None) and (t is not None or ok_model_tau):
        m_kw = mk_model(cfg)
        kw_res = vals(guarded(m_kw.rate, mk_teams(m_kw, teams), what="rate (keywords)", ranks=outcome.get("ranks"), scores=outcome.get("scores"), tau=t, limit_sigma=b))
        m_pos = mk_model(cfg)
        pos_res = vals(guarded(m_pos.rate, mk_teams(m_pos, teams), outcome.get("ranks"), outcome.get("scores"), t, b, what="rate (positional)"))
        ctx.called(2)
        _cmp(pos_res, kw_res, "positional-rate-arguments", f"rate(teams, ranks, scores, {t!r}, {b!r}) positionally vs by keyword")
    cls = classes()[cfg["kind"]]
    gfun = GAMMAS[cfg["gamma"]] if cfg.get("gamma", "default") != "default" else None
    if gfun is not None and plain is not None:
        m_posc = cls(cfg["mu"], cfg["sigma"], cfg["beta"], cfg["kappa"], gfun, cfg["tau"], cfg["limit_sigma"])
        posc = vals(guarded(m_posc.rate, mk_teams(m_posc, teams), what="rate (positionally constructed model)", **{k: v for k, v in outcome.items()}))
        ctx.called()
        _cmp(posc, plain, "positional-constructor-arguments", "Model(mu, sigma, beta, kappa, gamma, tau, limit_sigma) positionally vs by keyword")

    nt = False
    if t is not None:
        per_call = rate_values(cfg, teams, dict(outcome, tau=t), ctx)
        model_level = rate_values(dict(cfg, tau=t), teams, outcome, ctx)
        ctx.label("t:" + ("zero" if t == 0 else "tiny" if t < 1e-100 else "int" if isinstance(t, int) else "float"))
        _cmp(per_call, model_level, "tau:zero" if t == 0 else "tau:nonzero", f"Model(tau={cfg['tau']!r}).rate(g, tau={t!r}) vs Model(tau={t!r}).rate(g)")
        nt = nt or (t == 0 and cfg["tau"] != 0)
    if b is not None and ok_model_tau:
        per_call = rate_values(cfg, teams, dict(outcome, limit_sigma=b), ctx)
        model_level = rate_values(dict(cfg, limit_sigma=b), teams, outcome, ctx)
        ctx.label(f"b:{b}/model:{cfg['limit_sigma']}")
        _cmp(per_call, model_level, f"limit:{b}", f"Model(limit_sigma={cfg['limit_sigma']}).rate(g, limit_sigma={b}) vs Model(limit_sigma={b}).rate(g)")
        nt = nt or (b is False and cfg["limit_sigma"] is True)
        if b:
            binding = any(pv[1] == p[1] for tv, tt in zip(per_call, teams) for pv, p in zip(tv, tt))
            if binding:
                ctx.label("limit-binding")
                nt = True
    if t is not None and b is not None:
        per_call = rate_values(cfg, teams, dict(outcome, tau=t, limit_sigma=b), ctx)
        model_level = rate_values(dict(cfg, tau=t, limit_sigma=b), teams, outcome, ctx)
        _cmp(per_call, model_level, "combined" + (":tau0" if t == 0 else ""), f"rate(g, tau={t!r}, limit_sigma={b}) vs Model(tau={t!r}, limit_sigma={b}).rate(g)")
    ctx.nontrivial_if(nt)


@st.composite
def cases(draw):
    g = draw(gen.games(options=False, enc_kinds=["int", "int_relabel", "scores", "omitted", "float"]))
    beta = g["cfg"]["beta"]
    g["t"] = draw(st.one_of(
        st.none(),
        st.sampled_from([0, 0.0, 0, 0.0, 1e-300, 1e-6 * beta, beta / 50.0, 2.0 * beta, 1, 2]),
        st.floats(0.0, 2.0).map(lambda u: u * beta)))
    g["b"] = draw(st.sampled_from([None, True, False, True, False]))
    t_eff = g["t"] if g["t"] is not None else g["cfg"]["tau"]
    if g["t"] is not None and t_eff >= 1e-6 * beta and draw(st.integers(0, 5)) == 0:
        # sigma exactly 0 (an anchor / bot of known skill) is valid when the tau in force is > 0: one whole team, or single players
        whole = draw(st.integers(0, len(g["teams"]) - 1))
        for i, tm in enumerate(g["teams"]):
            for p in tm:
                if i == whole or draw(st.integers(0, 5)) == 0:
                    p[1] = 0.0
        g["meta"]["sigma0"] = True
    return g


class _OptionTwin(TwinLeague):
    """Side B plays every game through ONE long-lived model and passes (t, b) per call; side A plays it through a model newly constructed
    with tau=t / limit_sigma=b (the model's own setting where the argument is omitted) and passes nothing.  The rating objects of both
    sides live on through the history."""
    WHAT = "percall-vs-model-level"

    def side_calls(self, step):
        t, b = step["t"], step["b"]
        outcome = dict(step["frag"])
        cfg_a = dict(self.cfg)
        if t is not None:
            cfg_a["tau"] = t
        if b is not None:
            cfg_a["limit_sigma"] = b
        call_b = dict(outcome)
        if t is not None:
            call_b["tau"] = t
        if b is not None:
            call_b["limit_sigma"] = b
        return [(mk_model(cfg_a), outcome), (self.models[1], call_b)]

    @classmethod
    def extra_step(cls, draw, h, n, classes):
        beta = h.cfg["beta"]
        frag, _ = draw(gen.encodings(classes, kinds=["int", "int_relabel", "scores", "omitted", "float"]))
        t = draw(st.one_of(st.none(), st.sampled_from([0, 0.0, 1e-300, 1e-6 * beta, beta / 50.0, 2.0 * beta, 1, 2, h.cfg["tau"]]), st.floats(0.0, 2.0).map(lambda u: u * beta)))
        return {"frag": frag, "t": t, "b": draw(st.sampled_from([None, True, False, True, False]))}


OptionTwin = twin_class(_OptionTwin, "OptionTwin")


PROPERTY = Property(
    pid="C15",
    clauses=[
        Clause(name="percall-vs-model-level", strategy=cases(), check=check_c15, quick=6000, thorough=120000,
               rule="non-trivial = per-call tau == 0 on a model with tau != 0, or per-call limit_sigma=False on a model built with True, or the clamp binds"),
        Clause(name="option-twin-leagues", kind="stateful", machine=machine_factory(OptionTwin), check=replayer(OptionTwin),
               quick=320, thorough=6000, steps_quick=25, steps_thorough=100,
               rule="rule-based machine: twin leagues of 4-10 rating objects play the same games (objects fed back); side B through ONE long-lived model "
                    "with (tau, limit_sigma) drawn per game and passed per call, side A through a model newly constructed with those settings and no "
                    "arguments; all (mu, sigma) identical after every game; non-trivial = >= 6 games with some player in >= 3"),
    ],
    rule="generated (config incl. model-level tau/limit_sigma, game, outcome, per-call t in {0, 0.0, 1e-300, 1e-6 beta, default, 2 beta, ints, U(0,2) beta}, "
         "b in {True, False}); fresh model + fresh ratings on each side; results compared bit for bit; non-trivial = tau 0 override | False override | clamp binds; "
         "distinct by SHA-1 of the case",
    assumptions=["'identical' is read as bit-identical (mu, sigma) for every player"],
)

from vf import opt as _opt  # noqa: E402

PROPERTY.clauses.append(_opt.optimised("C15", next(c for c in PROPERTY.clauses if c.name == "percall-vs-model-level"), quick=64, thorough=640))
