"""C18 — rating comparison operators order players exactly as ordinal() does."""
from __future__ import annotations

import operator

from hypothesis import strategies as st

from vf.core import Clause, Property, Violation
from vf.osk import KINDS, classes, rating_classes
from vf.stateful import machine_factory, replayer

ORDER_OPS = [("<", operator.lt), ("<=", operator.le), (">", operator.gt), (">=", operator.ge)]
FOREIGN = ["none", "int", "float", "str", "tuple", "list", "dict", "object", "bool"] + ["rating:" + k for k in KINDS]


def mk(kind, mu, sigma):
    return rating_classes()[kind](mu, sigma)


def foreign_operand(name, kind, mu, sigma):
    if name.startswith("rating:"):
        return rating_classes()[name.split(":")[1]](mu, sigma)
    return {"none": None, "int": 3, "float": 2.5, "str": "rating", "tuple": (mu, sigma), "list": [mu, sigma], "dict": {"mu": mu, "sigma": sigma},
            "object": object(), "bool": True}[name]


def check_pair(case, ctx):
    kind = case["kind"]
    (m1, s1), (m2, s2) = case["a"], case["b"]
    a, b = mk(kind, m1, s1), mk(kind, m2, s2)
    if case.get("same_id"):
        b.id = a.id  # a snapshot and its later version share the id (deepcopy keeps it): equality is still about the values
        ctx.label("same-id")
    z = case["z"]
    ctx.label("kind:" + kind)
    # ordinal
    for r, (m, s) in ((a, (m1, s1)), (b, (m2, s2))):
        try:
            o3, oz = r.ordinal(), r.ordinal(z)
        except Exception as e:  # noqa: BLE001
            raise Violation("ordinal:raised", f"{kind}Rating({m!r}, {s!r}).ordinal raised {e!r}") from None
        if o3 != m - 3.0 * s or oz != m - z * s:
            raise Violation("ordinal:value", f"{kind}Rating({m!r}, {s!r}): ordinal() = {o3!r} (expected {m - 3.0 * s!r}), ordinal({z!r}) = {oz!r} (expected {m - z * s!r})")
    oa, ob = m1 - 3.0 * s1, m2 - 3.0 * s2
    for x, y, ox, oy in ((a, b, oa, ob), (b, a, ob, oa)):
        for name, op in ORDER_OPS:
            try:
                got = op(x, y)
            except Exception as e:  # noqa: BLE001
                raise Violation(f"order:{name}:raised", f"{kind}: ({x!r}) {name} ({y!r}) raised {e!r}") from None
            ctx.called()
            if got is not op(ox, oy):
                raise Violation(f"order:{name}", f"{kind}: ({x!r}) {name} ({y!r}) is {got!r}, ordinals {ox!r} {name} {oy!r} is {op(ox, oy)!r}")
        eq = (x == y)
        ne = (x != y)
        want = (x.mu == y.mu and x.sigma == y.sigma)
        if eq is not want or ne is not (not want):
            raise Violation("equality", f"{kind}: ({x!r}) == ({y!r}) is {eq!r}, != is {ne!r}; mu/sigma both equal: {want}")
    equal_ord = oa == ob and (m1, s1) != (m2, s2)
    if equal_ord:
        ctx.label("equal-ordinal-different-values")
    ctx.nontrivial_if(equal_ord or (m1 == m2) != (s1 == s2))


def check_sort(case, ctx):
    kind = case["kind"]
    rs = [mk(kind, m, s) for m, s in case["ratings"]]
    try:
        got = sorted(rs)
    except Exception as e:  # noqa: BLE001
        raise Violation("sorted:raised", f"{kind}: sorted() raised {e!r}") from None
    want = sorted(rs, key=lambda r: r.mu - 3.0 * r.sigma)
    if [id(r) for r in got] != [id(r) for r in want]:
        raise Violation("sorted", f"{kind}: sorted(ratings) = {got!r}, by ordinal (stable) = {want!r}")
    ords = [r.mu - 3.0 * r.sigma for r in rs]
    ctx.called()
    ctx.label("kind:" + kind)
    ctx.nontrivial_if(len(set(ords)) < len(ords) and len(set(case_tuple(x) for x in case["ratings"])) > len(set(ords)))


def case_tuple(x):
    return (x[0], x[1])


def check_foreign(case, ctx):
    kind = case["kind"]
    m, s = case["a"]
    a = mk(kind, m, s)
    n = 0
    for name in FOREIGN:
        if name == "rating:" + kind:
            continue
        other = foreign_operand(name, kind, *case["b"])
        for x, y in ((a, other), (other, a)):
            for opname, op in ORDER_OPS:
                try:
                    r = op(x, y)
                    raise Violation(f"foreign:{opname}:returned", f"{kind}Rating {opname} with foreign operand {name} ({'left' if x is a else 'right'}) returned {r!r}")
                except ValueError:
                    pass
                except Violation:
                    raise
                except Exception as e:  # noqa: BLE001
                    raise Violation(f"foreign:{opname}:{type(e).__name__}",
                                    f"{kind}Rating {opname} with foreign operand {name} ({'left' if x is a else 'right'}) raised {type(e).__name__}: {e}") from None
                n += 1
            try:
                eq, ne = (x == y), (x != y)
            except Exception as e:  # noqa: BLE001
                raise Violation("foreign:eq:raised", f"{kind}Rating ==/!= with foreign operand {name} raised {e!r}") from None
            if eq is not False or ne is not True:
                raise Violation("foreign:eq", f"{kind}Rating == foreign operand {name} is {eq!r}, != is {ne!r}")
            n += 2
    ctx.called(n)
    ctx.enumerated("operator x operand-kind x side grid", n)
    ctx.label("kind:" + kind)
    ctx.nontrivial_if(True)


# ------------------------------------------------------------------------------------------------
# ratings that change between comparisons (leaderboard history)
# ------------------------------------------------------------------------------------------------
class Leaderboard:
    """A pool of rating objects that are compared, sorted, updated (by assignment and by rate(), which updates in place) and compared again."""

    def __init__(self, first, ctx):
        from vf.osk import classes

        self.kind = first["kind"]
        self.ctx = ctx
        from vf import failing, gen

        # default parameters; the gamma callback is the default one behind a pass-through wrapper the harness can arm to raise (failed_play)
        self.model, self.trip = failing.tripwire_model(gen.default_config(self.kind))
        self.pool = [self.model.rating(m, s) for m, s in first["ratings"]]
        self.nontrivial = False
        self.labels = ["kind:" + self.kind]
        self.compared = set()
        self.changed_after_compare = False

    @staticmethod
    def init_strategy():
        return st.fixed_dictionaries({
            "op": st.just("init"), "kind": st.sampled_from(KINDS),
            "ratings": st.lists(st.tuples(st.integers(-40, 80).map(lambda i: i / 2.0), st.integers(1, 24).map(lambda i: i / 2.0)).map(list), min_size=3, max_size=6)})

    def _check_pair(self, i, j):
        a, b = self.pool[i], self.pool[j]
        oa, ob = a.mu - 3.0 * a.sigma, b.mu - 3.0 * b.sigma
        for name, op in ORDER_OPS:
            try:
                got = op(a, b)
            except Exception as e:  # noqa: BLE001
                raise Violation(f"history:{name}:raised", f"{self.kind}: ({a!r}) {name} ({b!r}) raised {e!r}") from None
            if got is not op(oa, ob):
                raise Violation(f"history:order:{name}", f"{self.kind}: after updates, ({a!r}) {name} ({b!r}) is {got!r} but ordinals {oa!r} {name} {ob!r} is {op(oa, ob)!r}")
        if a.ordinal() != oa:
            raise Violation("history:ordinal", f"{self.kind}: ordinal() = {a.ordinal()!r} but mu - 3 sigma = {oa!r}")
        if (a == b) is not (a.mu == b.mu and a.sigma == b.sigma):
            raise Violation("history:equality", f"{self.kind}: ({a!r}) == ({b!r}) is {a == b}")
        self.ctx.called(6)
        if self.changed_after_compare and (i in self.compared or j in self.compared):
            self.nontrivial = True
        self.compared.update((i, j))

    def apply(self, step):
        n = len(self.pool)
        op = step["op"]
        if op == "compare":
            self._check_pair(step["i"] % n, step["j"] % n)
        elif op == "assign":
            r = self.pool[step["i"] % n]
            if step.get("mu") is not None:
                r.mu = step["mu"]
            if step.get("sigma") is not None:
                r.sigma = step["sigma"]
            self.changed_after_compare = bool(self.compared)
        elif op == "play":
            i, j = step["i"] % n, step["j"] % n
            if i == j:
                return
            try:
                res = self.model.rate([[self.pool[i]], [self.pool[j]]], ranks=step["ranks"])
            except Exception as e:  # noqa: BLE001
                raise Violation("history:rate-raised", f"{self.kind}: rate raised {e!r}") from None
            self.pool[i], self.pool[j] = res[0][0], res[1][0]
            self.changed_after_compare = bool(self.compared)
        elif op == "failed_play":
            # rate() on pool objects that does NOT complete: the gamma callback raises at its k-th invocation, or a third (throw-away) team
            # carries an absurd rating.  Whatever state the objects are left in, comparisons must reflect their CURRENT mu and sigma.
            i, j = step["i"] % n, step["j"] % n
            if i == j:
                return
            lobby = [[self.pool[i]], [self.pool[j]]]
            ranks = list(step["ranks"])
            if step["how"] == "absurd-opponent":
                lobby.append([self.model.rating(1e7, 1e-3), self.model.rating(-1e7, 1e200)])
                ranks.append(2)
            else:
                self.trip.update(armed=True, after=int(step["after"]), count=0)
            try:
                self.model.rate(lobby, ranks=ranks)
            except Exception:  # noqa: BLE001 - expected; nothing is asserted about the failing call itself
                pass
            finally:
                self.trip["armed"] = False
            for k in (i, j):
                r = self.pool[k]
                ok = all(isinstance(v, (int, float)) and v == v and abs(v) < 1e6 for v in (r.mu, r.sigma)) and r.sigma > 0
                if not ok:
                    # a failing call with absurd numbers may leave the object outside the domain (non-finite / huge): replaced, not judged
                    self.pool[k] = self.model.rating(25.0, 8.0)
                    self.compared.discard(k)
            self.changed_after_compare = bool(self.compared)
            if "failed-play" not in self.labels:
                self.labels.append("failed-play")
        elif op == "sort":
            try:
                got = sorted(self.pool)
            except Exception as e:  # noqa: BLE001
                raise Violation("history:sorted-raised", f"{self.kind}: sorted() raised {e!r}") from None
            want = sorted(self.pool, key=lambda r: r.mu - 3.0 * r.sigma)
            if [id(r) for r in got] != [id(r) for r in want]:
                raise Violation("history:sorted", f"{self.kind}: after updates sorted(pool) = {got!r}, by current ordinal = {want!r}")
            self.compared.update(range(n))
        for k in range(n - 1):
            self._check_pair(k, k + 1) if op == "sort" else None

    RULES = {}


Leaderboard.RULES = {
    "compare": lambda h: st.fixed_dictionaries({"op": st.just("compare"), "i": st.integers(0, 5), "j": st.integers(0, 5)}),
    "assign": lambda h: st.fixed_dictionaries({"op": st.just("assign"), "i": st.integers(0, 5), "mu": st.integers(-40, 80).map(lambda i: i / 2.0),
                                               "sigma": st.integers(1, 24).map(lambda i: i / 2.0)}),
    "assign_sigma_only": lambda h: st.fixed_dictionaries({"op": st.just("assign"), "i": st.integers(0, 5), "mu": st.none(),
                                                          "sigma": st.integers(1, 24).map(lambda i: i / 2.0)}),
    "assign_mu_only": lambda h: st.fixed_dictionaries({"op": st.just("assign"), "i": st.integers(0, 5), "mu": st.integers(-40, 80).map(lambda i: i / 2.0),
                                                       "sigma": st.none()}),
    "play": lambda h: st.fixed_dictionaries({"op": st.just("play"), "i": st.integers(0, 5), "j": st.integers(0, 5),
                                             "ranks": st.sampled_from([[0, 1], [1, 0], [0, 0]])}),
    "sort": lambda h: st.just({"op": "sort"}),
    "failed_play": lambda h: st.fixed_dictionaries({"op": st.just("failed_play"), "i": st.integers(0, 5), "j": st.integers(0, 5),
                                                    "ranks": st.sampled_from([[0, 1], [1, 0], [0, 0]]), "how": st.sampled_from(["gamma", "gamma", "absurd-opponent"]),
                                                    "after": st.integers(0, 3)}),
}


def _num():
    return st.one_of(
        st.floats(-1e6, 1e6), st.floats(-100.0, 100.0), st.integers(-100, 100), st.integers(-100, 100).map(float),
        st.sampled_from([0, 0.0, -0.0, 1, -1, 25.0, 8.333333333333334, 1e-300, -1e-300, 1e300]),
    )


@st.composite
def pair_cases(draw):
    kind = draw(st.sampled_from(KINDS))
    mode = draw(st.integers(0, 6))
    if mode == 6:  # numerically equal, differently typed (int vs float, 0 vs 0.0 vs -0.0, True vs 1)
        m = draw(st.integers(-50, 50))
        sg = draw(st.integers(0, 20))
        a = [m, sg]
        b = [draw(st.sampled_from([float(m), m])), draw(st.sampled_from([float(sg), sg]))]
        if m == 0 and draw(st.booleans()):
            b[0] = -0.0
        if sg == 1 and draw(st.booleans()):
            b[1] = True
    elif mode == 0:  # constructed equal ordinals, exact: (mu, sigma) and (mu + 3d, sigma + d) with dyadic values
        s1 = draw(st.integers(0, 64)) / 8.0
        d = draw(st.integers(-8, 64)) / 8.0
        m1 = draw(st.integers(-400, 400)) / 8.0
        a, b = [m1, s1], [m1 + 3.0 * d, s1 + d]
    elif mode == 1:  # equal (mu, sigma)
        a = [draw(_num()), draw(_num())]
        b = list(a)
    elif mode == 2:  # one coordinate equal
        a = [draw(_num()), draw(_num())]
        b = [a[0], draw(_num())] if draw(st.booleans()) else [draw(_num()), a[1]]
    else:
        a = [draw(_num()), draw(_num())]
        b = [draw(_num()), draw(_num())]
    z = draw(st.one_of(st.just(3.0), st.integers(-5, 5), st.floats(-10.0, 10.0)))
    return {"kind": kind, "a": a, "b": b, "z": z, "same_id": draw(st.integers(0, 3)) == 0}


@st.composite
def sort_cases(draw):
    kind = draw(st.sampled_from(KINDS))
    n = draw(st.integers(2, 12))
    base = [[draw(st.integers(-80, 80)) / 8.0, draw(st.integers(0, 32)) / 8.0] for _ in range(n)]
    # plant equal ordinals with different values
    for _ in range(draw(st.integers(0, 3))):
        src = base[draw(st.integers(0, n - 1))]
        d = draw(st.integers(-4, 16)) / 8.0
        base[draw(st.integers(0, n - 1))] = [src[0] + 3.0 * d, src[1] + d]
    return {"kind": kind, "ratings": base}


@st.composite
def foreign_cases(draw):
    return {"kind": draw(st.sampled_from(KINDS)), "a": [draw(_num()), draw(_num())], "b": [draw(_num()), draw(_num())]}


PROPERTY = Property(
    pid="C18",
    clauses=[
        Clause(name="pairs", strategy=pair_cases(), check=check_pair, quick=20000, thorough=300000,
               rule="two ratings of one class; all four order operators in both operand orders, ==, !=, ordinal(z); non-trivial = equal ordinals with different "
                    "(mu, sigma) (constructed from dyadic values so that mu - 3 sigma is exact) or exactly one coordinate equal"),
        Clause(name="sorted", strategy=sort_cases(), check=check_sort, quick=4000, thorough=60000,
               rule="sorted(list of ratings) vs a stable sort by ordinal; non-trivial = the list contains equal ordinals with different values"),
        Clause(name="foreign-operands", strategy=foreign_cases(), check=check_foreign, quick=2000, thorough=30000,
               rule="one rating against the exhaustive grid {None, int, float, str, tuple, list, dict, object, bool, rating of each other model} x 4 order operators "
                    "x both sides, plus == / !="),
        Clause(name="leaderboard-history", kind="stateful", machine=machine_factory(Leaderboard), check=replayer(Leaderboard),
               quick=480, thorough=8000, steps_quick=25, steps_thorough=60,
               rule="rule-based machine: a pool of rating objects is compared, sorted, updated (attribute assignment; rate(), which updates in place) and compared "
                    "again; non-trivial = a rating that had been compared was changed and then compared again"),
    ],
    rule="generated (class, (mu, sigma) pairs incl. ints, zeros, negatives, equal ordinals, equal values); oracle: (a op b) is (a.ordinal() op b.ordinal()) for the "
         "four order operators, ordinal(z) == mu - z*sigma exactly, == iff both coordinates equal, sorted == stable sort by ordinal, foreign operands raise ValueError "
         "for order operators and are unequal for ==; distinct by SHA-1",
    assumptions=["finite mu and sigma only"],
)

from vf import opt as _opt  # noqa: E402

PROPERTY.clauses.append(_opt.optimised("C18", next(c for c in PROPERTY.clauses if c.name == "pairs"), quick=160, thorough=1600))
PROPERTY.clauses.append(_opt.optimised("C18", next(c for c in PROPERTY.clauses if c.name == "foreign-operands"), quick=160, thorough=1600))
