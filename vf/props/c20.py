"""C20 — ratings can be built, stored and restored without changing any later result."""
from __future__ import annotations

import copy
import json
import re

from hypothesis import strategies as st

from vf import gen
from vf.core import Clause, Property, Violation
from vf.osk import KINDS, call_kwargs, classes, guarded, mk_model
from vf.stateful import machine_factory, replayer

HEX32 = re.compile(r"^[0-9a-f]{32}$")
_SEEN_IDS = set()


def same(a, b):
    """same value AND same type (so that 0 is not silently turned into 0.0 or False)."""
    return type(a) is type(b) and (a == b) and (repr(a) == repr(b))


# ------------------------------------------------------------------------------------------------
# construction
# ------------------------------------------------------------------------------------------------
def check_construct(case, ctx):
    cfg = case["cfg"]
    kind = cfg["kind"]
    model = mk_model(cfg)
    mu, sigma, name = case["mu"], case["sigma"], case["name"]
    kw = {}
    if case["give_mu"]:
        kw["mu"] = mu
    if case["give_sigma"]:
        kw["sigma"] = sigma
    if case["give_name"]:
        kw["name"] = name
    r = guarded(model.rating, what="rating()", **kw)
    ctx.called()
    want_mu = mu if case["give_mu"] else model.mu
    want_sigma = sigma if case["give_sigma"] else model.sigma
    want_name = name if case["give_name"] else None
    if not same(r.mu, want_mu) or not same(r.sigma, want_sigma):
        raise Violation("rating():values", f"{kind}.rating({kw}) holds mu={r.mu!r} sigma={r.sigma!r}, expected {want_mu!r} / {want_sigma!r}")
    if r.name != want_name:
        raise Violation("rating():name", f"{kind}.rating({kw}) holds name {r.name!r}")
    ids = [r.id]
    # positional form
    r2 = guarded(model.rating, mu, sigma, name, what="rating(mu, sigma, name)")
    if not same(r2.mu, mu) or not same(r2.sigma, sigma) or r2.name != name:
        raise Violation("rating():positional", f"{kind}.rating({mu!r}, {sigma!r}, {name!r}) holds {r2.mu!r}, {r2.sigma!r}, {r2.name!r}")
    ids.append(r2.id)
    # create_rating (name: None or non-empty text; see DESIGN.md C20)
    cname = name if name else None
    for via in ("instance", "class"):
        target = model if via == "instance" else classes()[kind]
        r3 = guarded(target.create_rating, [mu, sigma], cname, what="create_rating") if case["give_name"] else guarded(target.create_rating, [mu, sigma], what="create_rating")
        ctx.called()
        if not same(r3.mu, mu) or not same(r3.sigma, sigma):
            raise Violation("create_rating:values", f"{kind}.create_rating([{mu!r}, {sigma!r}]) holds mu={r3.mu!r} sigma={r3.sigma!r}")
        if r3.name != (cname if case["give_name"] else None):
            raise Violation("create_rating:name", f"{kind}.create_rating(..., {cname!r}) holds name {r3.name!r}")
        if type(r3) is not type(r):
            raise Violation("create_rating:type", f"{type(r3)} vs {type(r)}")
        ids.append(r3.id)
    for i in ids:
        if not (isinstance(i, str) and HEX32.match(i)):
            raise Violation("id:format", f"{kind}: id {i!r} is not 32 lowercase hex digits")
        if i in _SEEN_IDS:
            raise Violation("id:not-unique", f"{kind}: id {i!r} was already handed out in this run")
        _SEEN_IDS.add(i)
    ctx.label("kind:" + kind)
    zero_neg = any(isinstance(v, (int, float)) and v <= 0 for v in (mu, sigma))
    ctx.nontrivial_if(zero_neg or not (case["give_mu"] and case["give_sigma"]))


def _val():
    return st.one_of(
        st.sampled_from([0, 0.0, -0.0, 1, -1, -3.5, 25, 25.0, 8.333333333333334, 1e-300, 1e300, True, False]),
        st.floats(-1e6, 1e6), st.integers(-1000, 1000), st.floats(-50.0, 50.0))


@st.composite
def construct_cases(draw):
    return {"cfg": draw(gen.configs()), "mu": draw(_val()), "sigma": draw(_val()),
            "name": draw(st.one_of(st.none(), st.text(min_size=1, max_size=8), st.sampled_from(["0", " ", "None", "ö"]))),
            "give_mu": draw(st.booleans()), "give_sigma": draw(st.booleans()), "give_name": draw(st.booleans())}


# ------------------------------------------------------------------------------------------------
# copy
# ------------------------------------------------------------------------------------------------
def check_copy(case, ctx):
    cfg = case["cfg"]
    kind = cfg["kind"]
    model = mk_model(cfg)
    teams = [[model.rating(p[0], p[1], name=case["name"]) for p in t] for t in case["teams"]]
    first = teams[0][0]
    nested = [teams, [first], {"again": first}]
    cp = copy.deepcopy(nested)
    ctx.called()
    for t, tc in zip(teams, cp[0]):
        for p, pc in zip(t, tc):
            if pc is p:
                raise Violation("deepcopy:same-object", f"{kind}: deepcopy returned the original object")
            if type(pc) is not type(p):
                raise Violation("deepcopy:type", f"{kind}: deepcopy returned {type(pc)}")
            if not (same(pc.mu, p.mu) and same(pc.sigma, p.sigma) and pc.name == p.name and pc.id == p.id):
                raise Violation("deepcopy:attribute-lost", f"{kind}: original (id {p.id[:8]}, name {p.name!r}, {p.mu!r}, {p.sigma!r}) -> copy (id {str(pc.id)[:8]}, name {pc.name!r}, {pc.mu!r}, {pc.sigma!r})")
            if set(vars(pc)) != set(vars(p)):
                raise Violation("deepcopy:attribute-set", f"{kind}: copy has attributes {sorted(vars(pc))}, original {sorted(vars(p))}")
    if cp[1][0] is first or cp[2]["again"] is first:
        raise Violation("deepcopy:same-object", f"{kind}: nested copy shares the original")
    # mutating the copy leaves the original untouched
    before = [(p.id, p.name, p.mu, p.sigma) for t in teams for p in t]
    for tc in cp[0]:
        for pc in tc:
            pc.mu = 12345.0
            pc.sigma = 0.5
            pc.name = "changed"
    after = [(p.id, p.name, p.mu, p.sigma) for t in teams for p in t]
    if before != after:
        raise Violation("deepcopy:aliasing", f"{kind}: mutating the copy changed the original")
    # snapshots: distinct objects that share an id (a deepcopy keeps the id) but hold different values, copied in ONE deepcopy call
    snap = copy.deepcopy(first)
    snap.mu = first.mu + 1.0
    snap.sigma = first.sigma * 0.5 + 1.0
    both = copy.deepcopy([[first, snap], {"later": snap, "earlier": first}])
    got = [(both[0][0].mu, both[0][0].sigma), (both[0][1].mu, both[0][1].sigma), (both[1]["later"].mu, both[1]["later"].sigma), (both[1]["earlier"].mu, both[1]["earlier"].sigma)]
    want = [(first.mu, first.sigma), (snap.mu, snap.sigma), (snap.mu, snap.sigma), (first.mu, first.sigma)]
    if got != want:
        raise Violation("deepcopy:snapshots-sharing-an-id", f"{kind}: deepcopy of two snapshots of one player (same id, different values) gives {got}, expected {want}")
    if both[0][0] is both[0][1]:
        raise Violation("deepcopy:snapshots-merged", f"{kind}: two distinct objects became one in the copy")
    single = copy.deepcopy(first)
    if single is first or single.id != first.id or single.name != first.name or not same(single.mu, first.mu):
        raise Violation("deepcopy:single", f"{kind}: deepcopy of one rating: {vars(single)} vs {vars(first)}")
    ctx.label("kind:" + kind)
    ctx.nontrivial_if(case["name"] is not None or len(teams) > 2)


@st.composite
def copy_cases(draw):
    g = draw(gen.games(max_teams=4, max_size=3, enc_kinds=["int"], options=False))
    return {"cfg": g["cfg"], "teams": g["teams"], "name": draw(st.one_of(st.none(), st.text(max_size=6)))}


# ------------------------------------------------------------------------------------------------
# restore: single call
# ------------------------------------------------------------------------------------------------
METHODS = ["create_rating", "rating", "deepcopy", "json", "constructor"]


def rebuild(model, kind, p, method):
    if method == "create_rating":
        return model.create_rating([p.mu, p.sigma])
    if method == "rating":
        return model.rating(p.mu, p.sigma)
    if method == "deepcopy":
        return copy.deepcopy(p)
    if method == "json":
        mu, sigma = json.loads(json.dumps([p.mu, p.sigma]))
        return model.rating(mu, sigma)
    if method == "constructor":
        return type(p)(p.mu, p.sigma)
    raise KeyError(method)


def results(model, objs, call):
    out = {}
    out["predict_win"] = guarded(model.predict_win, [list(t) for t in objs], what="predict_win")
    out["predict_draw"] = guarded(model.predict_draw, [list(t) for t in objs], what="predict_draw")
    out["predict_rank"] = guarded(model.predict_rank, [list(t) for t in objs], what="predict_rank")
    r = guarded(model.rate, [list(t) for t in objs], what="rate", **call_kwargs(call))
    out["rate"] = [[(p.mu, p.sigma) for p in t] for t in r]
    return out


def check_restore(case, ctx):
    cfg, teams, call = case["cfg"], case["teams"], case["call"]
    kind = cfg["kind"]
    model = mk_model(cfg)
    base = results(model, [[model.rating(p[0], p[1]) for p in t] for t in teams], call)
    ctx.called(4)
    for method in METHODS:
        originals = [[model.rating(p[0], p[1], name="n") for p in t] for t in teams]
        rebuilt = [[rebuild(model, kind, p, method) for p in t] for t in originals]
        got = results(model, rebuilt, call)
        ctx.called(4)
        for op in base:
            if got[op] != base[op]:
                raise Violation(f"restore:{method}:{op}", f"{kind} {op}: originals give {base[op]!r}, players rebuilt via {method} give {got[op]!r}"[:900])
    # a roster next to snapshots of it: every team carries the id tuple of the first team (deepcopy keeps ids), values differ
    clones = [[model.rating(p[0], p[1]) for p in t] for t in teams]
    for t in clones[1:]:
        for j, pl in enumerate(t):
            pl.id = clones[0][j % len(clones[0])].id
    got = results(model, clones, call)
    ctx.called(4)
    for op in base:
        if got[op] != base[op]:
            raise Violation(f"restore:cloned-ids:{op}", f"{kind} {op}: players with their own ids give {base[op]!r}, the same values under ids cloned from the first team {got[op]!r}"[:900])
    for lab in gen.game_labels(case):
        ctx.label(lab)
    ctx.nontrivial_if(len(teams) >= 3 or len(set(case["classes"])) < len(teams))


# ------------------------------------------------------------------------------------------------
# restore: twin leagues (history)
# ------------------------------------------------------------------------------------------------
class TwinLeagues:
    """League A keeps its objects; league B is rebuilt from stored (mu, sigma) before a drawn subset of games."""

    def __init__(self, first, ctx):
        self.cfg = first["cfg"]
        self.ctx = ctx
        self.kind = self.cfg["kind"]
        self.model_a = mk_model(self.cfg)
        self.model_b = mk_model(self.cfg)
        self.a = [self.model_a.rating(p[0], p[1]) for p in first["players"]]
        self.b = [self.model_b.rating(p[0], p[1]) for p in first["players"]]
        self.restored_since_game = [False] * len(self.a)
        self.played = [0] * len(self.a)
        self.nontrivial = False
        self.labels = ["kind:" + self.kind]
        self.n_games = 0
        self.n_restores = 0

    @staticmethod
    def init_strategy():
        @st.composite
        def init(draw):
            cfg = draw(gen.configs(gammas=["default", "default", "inv_k", "one", "half_default"]))
            beta = cfg["beta"]
            n = draw(st.integers(4, 10))
            return {"op": "init", "cfg": cfg,
                    "players": [[draw(st.floats(-3.0, 9.0)) * beta, draw(st.floats(0.5, 3.0)) * beta] for _ in range(n)]}

        return init()

    def compare(self, where):
        for i, (x, y) in enumerate(zip(self.a, self.b)):
            if (x.mu, x.sigma) != (y.mu, y.sigma):
                raise Violation("twin-leagues-diverge", f"{self.kind} {where}: player {i}: original league ({x.mu!r}, {x.sigma!r}) vs restored league ({y.mu!r}, {y.sigma!r})")

    def apply(self, step):
        if step["op"] == "restore":
            method = step["method"]
            for i in step["players"]:
                i = i % len(self.b)
                if method == "store-text":
                    mu, sigma = json.loads(json.dumps([self.b[i].mu, self.b[i].sigma]))
                    self.b[i] = self.model_b.create_rating([mu, sigma])
                else:
                    self.b[i] = rebuild(self.model_b, self.kind, self.b[i], method)
                if self.played[i] > 0:
                    self.restored_since_game[i] = True
            if step.get("new_model"):
                self.model_b = mk_model(self.cfg)
            self.n_restores += 1
            self.compare("after restore")
            return
        teams_idx = [[i % len(self.a) for i in t] for t in step["teams"]]
        flat = [i for t in teams_idx for i in t]
        if len(set(flat)) != len(flat):
            return
        call = step["call"]
        ra = guarded(self.model_a.rate, [[self.a[i] for i in t] for t in teams_idx], what="rate (original league)", **call_kwargs(call))
        rb = guarded(self.model_b.rate, [[self.b[i] for i in t] for t in teams_idx], what="rate (restored league)", **call_kwargs(call))
        pa = guarded(self.model_a.predict_win, [[self.a[i] for i in t] for t in teams_idx], what="predict_win")
        pb = guarded(self.model_b.predict_win, [[self.b[i] for i in t] for t in teams_idx], what="predict_win")
        self.ctx.called(4)
        if pa != pb:
            raise Violation("twin-leagues-diverge:predict", f"{self.kind} game {self.n_games}: predict_win {pa!r} vs {pb!r}")
        for t, ta, tb in zip(teams_idx, ra, rb):
            for i, x, y in zip(t, ta, tb):
                self.a[i] = x
                self.b[i] = y
                if self.restored_since_game[i]:
                    self.nontrivial = True
                self.played[i] += 1
        self.n_games += 1
        self.compare(f"after game {self.n_games}")

    RULES = {}


def _twin_match(h):
    @st.composite
    def match(draw):
        n_players = len(h.a)
        order = list(draw(st.permutations(list(range(n_players)))))
        n = draw(st.integers(2, min(4, n_players)))
        sizes = [1] * n
        extra = draw(st.integers(0, min(3, n_players - n)))
        for _ in range(extra):
            sizes[draw(st.integers(0, n - 1))] += 1
        teams, pos = [], 0
        for sz in sizes:
            teams.append(order[pos:pos + sz])
            pos += sz
        classes_ = draw(gen.weak_orders(n))
        frag, _ = draw(gen.encodings(classes_, kinds=["int", "float", "scores", "omitted"]))
        call = dict(frag)
        for k, v in draw(gen.call_options(h.cfg)).items():
            if v is not None:
                call[k] = v
        return {"op": "play", "teams": teams, "call": call}

    return match()


def _twin_restore(h):
    return st.fixed_dictionaries({
        "op": st.just("restore"),
        "method": st.sampled_from(METHODS + ["store-text"]),
        "players": st.lists(st.integers(0, 9), min_size=1, max_size=10),
        "new_model": st.booleans(),
    })


TwinLeagues.RULES = {"play": _twin_match, "play_again": _twin_match, "restore": _twin_restore}


def fork_custom(ctx, seed, tier, shard, nshards, n):
    """ids are fresh and unique also across a fork() of a process that has already imported the library and created ratings (pre-forking
    servers, multiprocessing with the fork start method): parent and child create ratings after the fork; no id may occur on both sides."""
    import os

    from vf.osk import classes

    if not hasattr(os, "fork"):
        return
    for k in range(n):
        case = {"fork": k, "shard": shard, "per_side": 40}
        ctx.begin(case)
        models = [c() for c in classes().values()]
        before = [m.rating().id for m in models]  # the library is in use before the fork
        r, w = os.pipe()
        pid = os.fork()
        if pid == 0:
            try:
                os.close(r)
                ids = [m.rating().id for _ in range(case["per_side"]) for m in models]
                os.write(w, ("\n".join(ids)).encode())
                os.close(w)
            finally:
                os._exit(0)
        os.close(w)
        mine = [m.rating().id for _ in range(case["per_side"]) for m in models]
        buf = b""
        while True:
            chunk = os.read(r, 65536)
            if not chunk:
                break
            buf += chunk
        os.close(r)
        os.waitpid(pid, 0)
        theirs = buf.decode().split("\n") if buf else []
        ctx.called(2 * len(mine))
        both = (set(mine) | set(before)) & set(theirs)
        if both:
            v = Violation("ids:shared-across-fork", f"{len(both)} of {len(theirs)} rating ids created in a forked child are also handed out in the parent, e.g. {sorted(both)[:3]}")
            v.case = case
            raise v
        if len(theirs) != len(mine):
            from vf.core import HarnessError
            raise HarnessError("fork child did not report its ids")
        ctx.nontrivial_if(True)
        ctx.end()


def check_fork(case, ctx):
    fork_custom(ctx, 0, "quick", 0, 1, 1)


PROPERTY = Property(
    pid="C20",
    clauses=[
        Clause(name="ids-across-fork", kind="custom", custom=fork_custom, check=check_fork, quick=32, thorough=320, shards_quick=16, shards_thorough=16,
               rule="a process that has imported the library and created ratings forks; parent and child each create 200 ratings (all five classes); "
                    "no id may be handed out on both sides; non-trivial = always"),
        Clause(name="construction", strategy=construct_cases(), check=check_construct, quick=6000, thorough=100000,
               rule="rating() with each argument present / omitted (keyword and positional) and create_rating (instance and class) on values incl. 0, 0.0, -0.0, "
                    "negatives, ints, bools; non-trivial = a zero / negative value or an omitted argument"),
        Clause(name="deepcopy", strategy=copy_cases(), check=check_copy, quick=2000, thorough=40000,
               rule="deepcopy of single ratings, nested team lists and containers sharing one rating; non-trivial = named ratings or > 2 teams"),
        Clause(name="restore-single-call", strategy=gen.games(max_teams=6, max_size=4), check=check_restore, quick=2000, thorough=40000,
               rule="originals vs players rebuilt by create_rating / rating / deepcopy / JSON text round-trip / direct constructor; rate and the three predicts "
                    "bit-identical; non-trivial = >= 3 teams or a tie"),
        Clause(name="restore-twin-leagues", kind="stateful", machine=machine_factory(TwinLeagues), check=replayer(TwinLeagues),
               quick=240, thorough=4000, steps_quick=30, steps_thorough=100,
               rule="rule-based machine: twin leagues, one keeps its objects, the other is rebuilt from stored (mu, sigma) (and optionally a new model object) between "
                    "games by a drawn method; all (mu, sigma) bit-identical after every step; non-trivial = some player was restored between two of its games"),
    ],
    rule="generated constructions, copies, and restore points in single calls and league histories; oracle: attributes hold exactly the given objects' values and "
         "types, ids 32-hex and unique over the run, deepcopy preserves mu/sigma/name/id in a distinct object, rebuilt players give bit-identical rate / predict "
         "results; distinct by SHA-1",
    assumptions=["create_rating is exercised with name None or non-empty text (the empty string is normalised to 'no name' there; not asserted either way)",
                 "finite mu / sigma only"],
)

from vf import opt as _opt  # noqa: E402

PROPERTY.clauses.append(_opt.optimised("C20", next(c for c in PROPERTY.clauses if c.name == "construction"), quick=160, thorough=1600))
PROPERTY.clauses.append(_opt.optimised("C20", next(c for c in PROPERTY.clauses if c.name == "deepcopy"), quick=160, thorough=1600))
