"""C01 — rate() equals the published Weng-Lin posterior (DESIGN.md section 5, C01)."""
from __future__ import annotations

from vf import dense, gen
from vf.core import Clause, Property, Violation
from vf.osk import IS_TM, eff_limit, eff_tau, outcome_values, rate_values
from vf.props.c04 import big_lobbies
from vf.refmodel import compare, reference
from vf.league import league_class
from vf.stateful import machine_factory, replayer

LEAGUE = league_class("C01League", ("ref",), "C01")


T_LO, T_HI = 1e-8, 1e-2


def family(kind):
    return {"PL": "PL", "BTF": "BT", "BTP": "BT", "TMF": "TM", "TMP": "TM"}[kind]


def discriminator(case, diag):
    cfg, call = case["cfg"], case["call"]
    if call.get("tau") is not None and float(call["tau"]) == 0.0 and cfg["tau"] != 0.0:
        return "percall-tau0"
    vals = call.get("ranks") if call.get("ranks") is not None else call.get("scores")
    if vals is not None and any(isinstance(v, float) for v in vals):
        return "float-outcome"
    if cfg["kind"] in IS_TM and diag["max_abs_x"] >= 5.0:
        return "tm-tail"
    if len(set(case["classes"])) < len(case["classes"]):
        return "tie"
    return "generic"


def nontrivial(case, diag):
    cfg = case["cfg"]
    sizes = [len(t) for t in case["teams"]]
    return (
        len(set(case["classes"])) < len(sizes)
        or len(sizes) >= 4
        or len(set(sizes)) > 1
        or cfg["scale"] != 1.0
        or cfg["kappa"] != 1e-4
        or cfg["gamma"] != "default"
        or (cfg["kind"] in IS_TM and diag["max_abs_x"] >= 5.0)
    )


def check_c01(case, ctx):
    cfg, teams, call = case["cfg"], case["teams"], case["call"]
    kind = cfg["kind"]
    n = len(teams)
    values = outcome_values(n, call)
    tau = eff_tau(cfg, call)
    lim = eff_limit(cfg, call)
    res = rate_values(cfg, teams, call, ctx)
    factor = 2 if kind == "TMP" else 1
    ref, diag = reference(kind, teams, values, cfg["beta"], cfg["kappa"], tau, cfg["gamma"], lim, tmp_factor=factor)
    for lab in gen.game_labels(case):
        ctx.label(lab)
    if kind in IS_TM:
        for b in diag["branches"]:
            ctx.label("tm-branch:" + b)
        if diag["max_abs_x"] >= 5.0:
            ctx.label("tm:max|x|>=5")
        if not (T_LO <= diag["t_min"] and diag["t_max"] <= T_HI):
            # outside the margin range for which C17 states the corrections' error: C01 has nothing to compare with
            ctx.exclude("tm-margin-outside-[1e-8,1e-2]")
            return
    if diag["kappa_floor"]:
        ctx.label("kappa-floor-binding")
    if diag["limit_binding"]:
        ctx.label("limit-sigma-binding")
    ctx.nontrivial_if(nontrivial(case, diag))
    ok, wm, ws, bad = compare(res, ref)
    ctx.maxi(f"{family(kind)}:mu_error/allowance", wm)
    ctx.maxi(f"{family(kind)}:sigma_error/allowance", ws)
    if not ok:
        raise Violation(f"{family(kind)}:{discriminator(case, diag)}",
                        f"{kind} player {bad[0]},{bad[1]}: mu={bad[2]!r} ref={bad[3]} tol={bad[4]} sigma={bad[5]!r} allowed=[{bad[6]}, {bad[7]}] "
                        f"max|x|={diag['max_abs_x']:.4f} branches={sorted(diag['branches'])}")
    if kind == "TMP":
        # K1: the paper's pairwise scale (factor 1).  A mismatch here, while factor 2 matched above, is the known finding.
        ref1, diag1 = reference(kind, teams, values, cfg["beta"], cfg["kappa"], tau, cfg["gamma"], lim, tmp_factor=1)
        if diag1["t_max"] <= T_HI and diag1["t_min"] >= T_LO:
            ok1, _, _, bad1 = compare(res, ref1)
            if not ok1:
                raise Violation("tmp-ciq-doubled",
                                f"TMP player {bad1[0]},{bad1[1]}: mu={bad1[2]!r} paper={bad1[3]} tol={bad1[4]} sigma={bad1[5]!r} paper=[{bad1[6]}, {bad1[7]}]; "
                                f"equals the update with c_iq doubled")


STRAT = gen.games()

PROPERTY = Property(
    pid="C01",
    clauses=[
        Clause(
            name="posterior-vs-reference",
            strategy=STRAT,
            check=check_c01,
            quick=4000,
            thorough=80000,
            rule="one rate() call on a generated (config, game, outcome encoding, per-call options); non-trivial = has a tie, or >= 4 teams, "
                 "or unequal team sizes, or non-default scale/kappa/gamma, or (TM) a pair with |x| >= 5; distinct = SHA-1 of the whole case",
        ),
        Clause(
            name="dense-two-team-sweep",
            strategy=dense.two_team_sweep(),
            check=check_c01,
            quick=3000,
            thorough=200000,
            rule="two-team games whose standardised gap is drawn uniformly from [-10, 10] (spacing 7e-3 quick, 1e-4 thorough), compared with the reference; "
                 "non-trivial as above",
        ),
        Clause(
            name="large-lobbies",
            strategy=big_lobbies(),
            check=check_c01,
            quick=96,
            thorough=2000,
            rule="exploration beyond the stated 2..8 teams: lobbies of 9..40 teams compared with the reference",
        ),
        Clause(
            name="league-vs-reference", kind="stateful", machine=machine_factory(LEAGUE), check=replayer(LEAGUE),
            quick=320, thorough=6000, steps_quick=30, steps_thorough=120,
            rule="rule-based machine: a league of 5-12 rating OBJECTS on ONE model; rate() on drawn partitions with any outcome encoding / per-call "
                 "options, returned (or passed-in) objects fed back, the very list a call returned rated again, predictions interleaved; after every "
                 "game each returned (mu, sigma) must lie in the reference interval computed from the values the objects held just before the "
                 "call; non-trivial = >= 8 games with some player in >= 4",
        ),
    ],
    rule="generated (model kind, beta/kappa/tau/limit_sigma/gamma, 2..8 teams x 1..8 players in one of 7 value regimes, weak order, "
         "rank/score encoding, per-call tau/limit_sigma); compared per player with an independent 50-digit mpmath evaluation of the published "
         "update (interval = 1e-9 float budget + C17's stated error of each TM correction); non-trivial = tie | n>=4 | unequal sizes | "
         "non-default scale/kappa/gamma | TM pair with |x|>=5; distinct by SHA-1 of the case",
    assumptions=[
        "reference model vf/refmodel.py is a faithful transcription of Weng & Lin (2011) Algorithms 1-4 plus the documented extensions",
        "TM cases whose pairwise margin t = kappa/c_iq leaves [1e-8, 1e-2] are excluded (counted): C17 states no error for them",
        "ThurstoneMostellerPart is compared with c_iq doubled (as implemented and pinned by the repository's goldens) and with the paper's c_iq; "
        "the latter mismatch is the known finding tmp-ciq-doubled",
    ],
)

from vf import opt as _opt  # noqa: E402

PROPERTY.clauses.append(_opt.optimised("C01", next(c for c in PROPERTY.clauses if c.name == "posterior-vs-reference"), quick=64, thorough=640))
