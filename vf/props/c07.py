"""C07 — no rating inflation: the precision-weighted mu change sums to zero over a game."""
from __future__ import annotations

import math
import sys

from vf import dense, gen
from vf.budget import Budget, pairs_of
from vf.core import Clause, Property, Violation
from vf.osk import IS_TM, eff_tau, observed_or_rate, outcome_values, rate_values
from vf.props.c04 import big_lobbies
from vf.league import league_class
from vf.stateful import machine_factory, replayer


EPS = sys.float_info.epsilon
R = 1e-9


def check_c07(case, ctx):
    cfg, teams, call = case["cfg"], case["teams"], case["call"]
    kind = cfg["kind"]
    n = len(teams)
    values = outcome_values(n, call)
    tau = eff_tau(cfg, call)
    res = observed_or_rate(case, ctx)
    for lab in gen.game_labels(case):
        ctx.label(lab)
    bud = Budget(kind, teams, values, cfg["beta"], cfg["kappa"], tau)
    var = [math.fsum(p[1] * p[1] + tau * tau for p in t) for t in teams]
    D = [math.fsum(r[0] - p[0] for p, r in zip(t, tr)) for t, tr in zip(teams, res)]
    fl = [4 * EPS * math.fsum(abs(p[0]) + abs(r[0]) for p, r in zip(t, tr)) for t, tr in zip(teams, res)]
    Z = math.fsum(D[i] / var[i] for i in range(n))
    tol_terms = R * math.fsum(bud.S[i] / var[i] for i in range(n))
    tol_round = math.fsum(fl[i] / var[i] for i in range(n))
    tol_tie = 0.0
    tied = 0
    if kind in IS_TM:
        for i, q in pairs_of(kind, values):
            if values[i] == values[q]:
                c = bud.c_of[(i, q)]
                t = cfg["kappa"] / c
                tol_tie += cfg["kappa"] / (c * c) + 4e-15 / t / c  # 2 kappa / c^2 per (unordered) tied pair + rounding of V~
                tied += 1
    tol = tol_terms + tol_round + tol_tie
    ctx.maxi(f"{kind}:|Z|/tol", abs(Z) / tol if tol > 0 else 0.0)
    ctx.maxi(f"{kind}:|Z|/summand-magnitude", abs(Z) / (tol_terms / R) if tol_terms > 0 else 0.0)
    if abs(Z) > tol:
        fam = "TM" if kind in IS_TM else kind
        raise Violation(f"imbalance:{fam}:{gen.tie_shape(case['classes'])}",
                        f"{kind} call={call}: sum_i D_i/var_i = {Z!r}, tolerance {tol:.3e} (terms {tol_terms:.3e}, rounding {tol_round:.3e}, TM ties {tol_tie:.3e}); "
                        f"D={D} var={var}")
    # corollary: equal team variances -> total mu is conserved
    if max(var) - min(var) <= 4 * EPS * max(var):
        tot = math.fsum(D)
        tol2 = tol * max(var) * (1 + 1e-9)
        ctx.label("equal-variances")
        if abs(tot) > tol2:
            raise Violation("mu-not-conserved-equal-variance", f"{kind} call={call}: equal team variances, total mu change {tot!r} (tolerance {tol2:.3e})")
    if tol_round <= 0.01 * tol_terms:
        ctx.label("rounding-floor-negligible")
    ctx.nontrivial_if(n >= 3 or len(set(case["classes"])) < n)


STRAT = gen.games(regimes=["dyadic", "dyadic", "dyadic", "generic", "targeted", "identical", "near_equal", "corner"])

LEAGUE = league_class("C07League", ("balance",), "C07")

PROPERTY = Property(
    pid="C07",
    clauses=[
        Clause(name="precision-weighted-balance", strategy=STRAT, check=check_c07, quick=8000, thorough=150000,
               rule="one rate() call; non-trivial = >= 3 teams or a tie"),
        Clause(name="dense-two-team-sweep", strategy=dense.two_team_sweep(), check=check_c07, quick=12000, thorough=400000,
               rule="two-team games with the standardised gap drawn uniformly from [-10, 10], all three outcomes; non-trivial = a draw"),
        Clause(name="large-lobbies", strategy=big_lobbies(), check=check_c07, quick=400, thorough=8000,
               rule="exploration beyond the stated 2..8 teams: lobbies of 9..40 teams; same oracle"),
        Clause(name="league-history", kind="stateful", machine=machine_factory(LEAGUE), check=replayer(LEAGUE),
               quick=320, thorough=6000, steps_quick=30, steps_thorough=120,
               rule="the same oracle after every game of a league history: 5-12 rating objects on one model, returned or passed-in objects fed "
                    "back, the returned list rated again, predictions interleaved; non-trivial = >= 8 games with some player in >= 4"),
    ],
    rule="generated games (3/8 in the dyadic regime where sums are exact); oracle: |sum_i D_i/var_i| <= 1e-9 x (magnitude of the summands that must cancel) "
         "+ rounding of forming mu'-mu from the outputs + (TM) 2 kappa/c^2 per tied pair; equal-variance corollary; non-trivial = n >= 3 or a tie; distinct by SHA-1",
    assumptions=["tolerance is relative to the summands' magnitude, not to the net change (which is mathematically 0)"],
)

from vf import opt as _opt  # noqa: E402

PROPERTY.clauses.append(_opt.optimised("C07", next(c for c in PROPERTY.clauses if c.name == "precision-weighted-balance"), quick=64, thorough=640))
