"""C13 — malformed calls are rejected with TypeError/ValueError before any side effect; well-formed calls are accepted."""
from __future__ import annotations

from vf import faults, gen
from vf.core import Clause, Property, Violation
from vf.osk import call_kwargs, mk_model, mk_teams

OPS = ["rate", "predict_win", "predict_draw", "predict_rank"]


def model_snapshot(model):
    return {k: (type(v).__name__, id(v) if callable(v) else v) for k, v in vars(model).items()}


def rating_snapshot(objs):
    return [(id(p), p.id, p.name, p.mu, p.sigma) for p in objs]


def run_fault(model, op, teams_vals, kwargs, fault, foreign, kind):
    """-> (verdict, detail): verdict in {'rejected', 'accepted', 'wrong-exception:<T>', 'side-effect'}."""
    objs = mk_teams(model, teams_vals)
    flat = [p for t in objs for p in t]
    targ, kw, extra = faults.build(objs, kwargs, fault, foreign)
    flat += extra
    before_r = rating_snapshot(flat)
    before_m = model_snapshot(model)
    verdict, detail = "accepted", ""
    try:
        if op == "rate":
            out = model.rate(targ, **kw)
        else:
            out = getattr(model, op)(targ)
        detail = f"returned {out!r}"[:200]
    except (TypeError, ValueError) as e:
        verdict = "rejected"
        detail = f"{type(e).__name__}: {e}"[:200]
    except Exception as e:  # noqa: BLE001
        verdict = f"wrong-exception:{type(e).__name__}"
        detail = f"{type(e).__name__}: {e}"[:200]
    if verdict != "accepted":
        after_r = rating_snapshot(flat)
        after_m = model_snapshot(model)
        if after_r != before_r or after_m != before_m:
            changed = [(b, a) for b, a in zip(before_r, after_r) if a != b][:3]
            return "side-effect", f"after {detail}: ratings changed {changed}, model changed {before_m != after_m}"
    return verdict, detail


def check_c13(case, ctx):
    cfg, teams, call = case["cfg"], case["teams"], case["call"]
    kind = cfg["kind"]
    model = mk_model(cfg)
    foreign = faults.foreign_models()
    sizes = [len(t) for t in teams]
    sel = "ranks" if call.get("ranks") is not None else "scores" if call.get("scores") is not None else None
    for lab in gen.game_labels(case):
        ctx.label(lab)
    # converse: the unfaulted call is accepted (all valid encodings: int, float, bool, zero, negative, unsorted, repeated)
    for op in OPS:
        objs = mk_teams(model, teams)
        try:
            if op == "rate":
                model.rate(objs, **call_kwargs(call))
            else:
                getattr(model, op)(objs)
        except Exception as e:  # noqa: BLE001
            raise Violation(f"valid-call-rejected:{op}:{type(e).__name__}", f"{kind} {op}({call if op == 'rate' else ''}) raised {type(e).__name__}: {e}") from None
        ctx.called()
    deep = 0
    total = 0
    for op in OPS:
        fl = faults.enumerate_faults(kind, sizes, sel, op=op)
        for fault in fl:
            verdict, detail = run_fault(model, op, teams, call_kwargs(call), fault, foreign, kind)
            ctx.called()
            total += 1
            if faults.depth(fault) >= 2 or fault["fault"].startswith("foreign:"):
                deep += 1
            if verdict != "rejected":
                raise Violation(f"{op}:{fault['site']}:{fault['fault'].split(':')[0]}:{verdict.split(':')[0]}",
                                f"{kind} {op} with fault {faults.describe(fault)} on call {call}: {verdict} ({detail})")
    ctx.enumerated("faulty calls (all sites x fault kinds of the case)", total)
    ctx.label(f"faults-per-case:{total // 100 * 100}+")
    ctx.nontrivial_if(deep > 0)


STRAT = gen.games(max_teams=5, max_size=3)


def fuzz_custom(ctx, seed, tier, shard, nshards, n):
    from vf.fuzz.harness import fuzz_clause

    # even shards: empty corpus; odd shards: a few fixed byte patterns long enough to decode into every site
    corpus = [] if shard % 2 == 0 else [bytes((k * m + 7) % 256 for k in range(96)) for m in (1, 3, 5, 7, 11, 13, 17, 19, 23)]
    ctx.label("corpus:" + ("patterns" if corpus else "empty"))
    fuzz_clause(ctx, "vf.fuzz.c13_target", n, seed, f"c13-{shard}", corpus, max_len=256)


def check_fuzzcase(case, ctx):
    from vf.fuzz.c13_target import check

    check(case, ctx)

PROPERTY = Property(
    pid="C13",
    level="fault_enumeration",
    clauses=[
        Clause(name="fault-enumeration", strategy=STRAT, check=check_c13, quick=1600, thorough=24000,
               rule="one generated valid call (2..5 teams x 1..3 players, any outcome encoding / options); ALL sites x fault kinds of the grammar enumerated on it "
                    "for rate and the three predicts (100-400 faulty calls per case); non-trivial = the case contains faults at depth >= 2 (player slot, "
                    "element of ranks/scores) or foreign-model ratings (always true for rate)"),
        Clause(name="atheris-garbage", kind="custom", custom=fuzz_custom, check=check_fuzzcase, quick=10000, thorough=800000, shards_quick=2, shards_thorough=16,
               rule="coverage-guided libFuzzer campaign: a byte-chosen site of a small valid call receives an object built from a grammar (None, bool, int, float, "
                    "str, bytes, own / foreign ratings, object(), nested list / tuple / set / dict); the target's own predicate decides well-formedness; "
                    "non-trivial = nested site or structured / foreign garbage"),
    ],
    rule="generated valid calls x exhaustive enumeration of the malformed-argument grammar (wrong container at each nesting level, too few teams, empty team, "
         "non-rating / foreign-model players at every slot, wrong-length / non-numeric ranks and scores at every position, both selectors); oracle: exception type "
         "is exactly TypeError or ValueError, snapshot of every reachable rating (id, name, mu, sigma) and of vars(model) unchanged; the unfaulted call is accepted; "
         "distinct by SHA-1 of the valid call",
    assumptions=[
        "falsy ranks/scores (None, [], 0, '') are 'not given' per the statement's 'given (non-empty)' and are neither required to be rejected nor accepted",
        "Decimal, Fraction, numpy scalars, NaN and inf are generated on neither side",
    ],
)
