"""C13 — malformed calls are rejected with TypeError/ValueError before any side effect; well-formed calls are accepted."""
from __future__ import annotations

from hypothesis import strategies as st

from vf import faults, gen
from vf.core import Clause, Property, Violation
from vf.osk import call_kwargs, mk_model, mk_teams, model_for

OPS = ["rate", "predict_win", "predict_draw", "predict_rank"]


def model_snapshot(model):
    return {k: (type(v).__name__, id(v) if callable(v) else v) for k, v in vars(model).items()}


def rating_snapshot(objs):
    return [(id(p), p.id, p.name, p.mu, p.sigma) for p in objs]


def alias(objs, al):
    """al = [i1, j1, i2, j2] (taken modulo the shape): the rating object of slot (i1, j1) is ALSO placed in slot (i2, j2) - one player listed
    twice, or shared by two teams.  Still a list of lists of the model's own rating objects."""
    if al:
        i1 = al[0] % len(objs)
        j1 = al[1] % len(objs[i1])
        i2 = al[2] % len(objs)
        j2 = al[3] % len(objs[i2])
        objs[i2][j2] = objs[i1][j1]
    return objs


def run_fault(model, op, teams_vals, kwargs, fault, foreign, kind, al=None):
    """-> (verdict, detail): verdict in {'rejected', 'accepted', 'wrong-exception:<T>', 'side-effect'}."""
    objs = alias(mk_teams(model, teams_vals), al)
    flat = [p for t in objs for p in t]
    targ, kw, extra = faults.build(objs, kwargs, fault, foreign)
    flat += extra
    before_r = rating_snapshot(flat)
    before_m = model_snapshot(model)
    verdict, detail = "accepted", ""
    try:
        if op == "rate":
            out = model.rate(targ, **kw)
        else:
            out = getattr(model, op)(targ)
        detail = f"returned {out!r}"[:200]
    except (TypeError, ValueError) as e:
        verdict = "rejected"
        detail = f"{type(e).__name__}: {e}"[:200]
    except Exception as e:  # noqa: BLE001
        verdict = f"wrong-exception:{type(e).__name__}"
        detail = f"{type(e).__name__}: {e}"[:200]
    if verdict != "accepted":
        after_r = rating_snapshot(flat)
        after_m = model_snapshot(model)
        if after_r != before_r or after_m != before_m:
            changed = [(b, a) for b, a in zip(before_r, after_r) if a != b][:3]
            return "side-effect", f"after {detail}: ratings changed {changed}, model changed {before_m != after_m}"
    return verdict, detail


def check_c13(case, ctx):
    cfg, teams, call = case["cfg"], case["teams"], case["call"]
    kind = cfg["kind"]
    model = model_for(cfg, call, teams)  # possibly a model that has been through one call that did not complete normally (prelude)
    al = case.get("alias")
    if al:
        ctx.label("aliased-rating-object")
    if call.get("prelude"):
        ctx.label("model-after-a-failed-call")
    foreign = faults.foreign_models()
    sizes = [len(t) for t in teams]
    sel = "ranks" if call.get("ranks") is not None else "scores" if call.get("scores") is not None else None
    for lab in gen.game_labels(case):
        ctx.label(lab)
    # converse: the unfaulted call is accepted (all valid encodings: int, float, bool, zero, negative, unsorted, repeated)
    for op in OPS:
        objs = alias(mk_teams(model, teams), al)
        try:
            if op == "rate":
                model.rate(objs, **call_kwargs(call))
            else:
                getattr(model, op)(objs)
        except Exception as e:  # noqa: BLE001
            raise Violation(f"valid-call-rejected:{op}:{type(e).__name__}", f"{kind} {op}({call if op == 'rate' else ''}) raised {type(e).__name__}: {e}") from None
        ctx.called()
    deep = 0
    total = 0
    for op in OPS:
        fl = faults.enumerate_faults(kind, sizes, sel, op=op)
        for fault in fl:
            verdict, detail = run_fault(model, op, teams, call_kwargs(call), fault, foreign, kind, al)
            ctx.called()
            total += 1
            if faults.depth(fault) >= 2 or fault["fault"].startswith("foreign:"):
                deep += 1
            if verdict != "rejected":
                raise Violation(f"{op}:{fault['site']}:{fault['fault'].split(':')[0]}:{verdict.split(':')[0]}",
                                f"{kind} {op} with fault {faults.describe(fault)} on call {call}: {verdict} ({detail})")
    ctx.enumerated("faulty calls (all sites x fault kinds of the case)", total)
    ctx.label(f"faults-per-case:{total // 100 * 100}+")
    ctx.nontrivial_if(deep > 0)


def check_mutated_in_place(case, ctx):
    """A teams list that was accepted once and is then edited IN PLACE into a malformed one must be rejected when passed again
    (same outer list object, same model), for every op pair."""
    cfg, teams, call = case["cfg"], case["teams"], case["call"]
    kind = cfg["kind"]
    model = mk_model(cfg)
    foreign = faults.foreign_models()
    sizes = [len(t) for t in teams]
    edits = [f for f in faults.enumerate_faults(kind, sizes, None, op="predict_win") if f["site"] in ("team", "player")] + [{"site": "teams", "fault": "pop-to-one"}]
    n = 0
    for first_op, second_op in case["op_pairs"]:
        for fault in [edits[i % len(edits)] for i in case["edit_idx"]]:
            objs = mk_teams(model, teams)  # the caller's lobby: one outer list object used for both calls
            try:
                getattr(model, first_op)(objs) if first_op != "rate" else model.rate(objs, **call_kwargs(call))
            except Exception as e:  # noqa: BLE001
                raise Violation(f"valid-call-rejected:{first_op}:{type(e).__name__}", f"{kind} {first_op} raised {e!r}") from None
            flat = [p for t in objs for p in t if hasattr(p, "mu")]
            # edit in place
            if fault["site"] == "teams":
                del objs[1:]
            elif fault["site"] == "team":
                objs[fault["i"]] = [] if fault["fault"] == "empty" else faults._container(fault["fault"], objs[fault["i"]], len(objs[fault["i"]]))
            else:
                objs[fault["i"]][fault["j"]] = faults._bad_player(fault["fault"], foreign)
            before = rating_snapshot(flat)
            before_m = model_snapshot(model)
            try:
                out = getattr(model, second_op)(objs) if second_op != "rate" else model.rate(objs, **{k: v for k, v in call_kwargs(call).items() if k in ("tau", "limit_sigma")})
                verdict = "accepted"
            except (TypeError, ValueError):
                verdict = "rejected"
            except Exception as e:  # noqa: BLE001
                verdict = "wrong-exception:" + type(e).__name__
            ctx.called(2)
            n += 1
            if verdict != "rejected":
                raise Violation(f"mutated-in-place:{second_op}:{fault['site']}:{verdict.split(':')[0]}",
                                f"{kind}: lobby accepted by {first_op}, then edited in place ({faults.describe(fault)}), then passed to {second_op}: {verdict}")
            if rating_snapshot(flat) != before or model_snapshot(model) != before_m:
                raise Violation(f"mutated-in-place:{second_op}:side-effect", f"{kind}: rejected {second_op} after in-place edit ({faults.describe(fault)}) modified a rating or the model")
    ctx.enumerated("accept / edit in place / call again", n)
    ctx.nontrivial_if(n > 0)


@st.composite
def mutated_cases(draw):
    g = draw(gen.games(max_teams=4, max_size=3, enc_kinds=["int", "omitted", "scores"]))
    ops = ["rate", "predict_win", "predict_draw", "predict_rank"]
    g["op_pairs"] = draw(st.lists(st.tuples(st.sampled_from(ops), st.sampled_from(ops)).map(list), min_size=1, max_size=3))
    g["edit_idx"] = draw(st.lists(st.integers(0, 10 ** 6), min_size=1, max_size=4))
    return g


@st.composite
def fault_cases(draw):
    g = draw(gen.games(max_teams=5, max_size=3))
    if draw(st.integers(0, 3)) == 0:
        g["alias"] = [draw(st.integers(0, 7)) for _ in range(4)]
    return g


STRAT = fault_cases()


def optimised_custom(ctx, seed, tier, shard, nshards, n):
    """The same fault enumeration in child interpreters started with -O and -OO: validation written with `assert` (or behind `if __debug__`)
    disappears there, and a malformed call is then accepted or fails late with another exception class."""
    import json
    import os
    import subprocess
    import sys

    from hypothesis import HealthCheck, given, settings
    from hypothesis import seed as hseed

    from vf.core import HarnessError

    cases = []

    @hseed(seed)
    @settings(max_examples=n + 1, database=None, deadline=None, suppress_health_check=list(HealthCheck))
    @given(fault_cases())
    def collect(c):
        cases.append(c)

    collect()
    cases = cases[:n] if shard == 0 else cases[1:n + 1]
    here = os.path.dirname(os.path.dirname(os.path.dirname(os.path.abspath(__file__))))
    work = os.path.join(here, ".work", f"c13-opt-{os.getpid()}-{shard}")
    os.makedirs(work, exist_ok=True)
    path = os.path.join(work, "cases.json")
    with open(path, "w") as f:
        json.dump(cases, f)
    try:
        for flag in ("-O", "-OO"):
            p = subprocess.run([sys.executable, "-B", flag, "-m", "vf.c13child", path], capture_output=True, text=True, timeout=1800)
            if p.returncode != 0:
                raise HarnessError(f"c13 child failed: {p.stderr[-2000:]}")
            out = json.loads(p.stdout)
            if out["optimize"] < 1:
                raise HarnessError("child did not run optimised")
            ctx.called(out["calls"])
            if out["violations"]:
                v0 = out["violations"][0]
                v = Violation("optimised:" + v0["bucket"], f"under python {flag}: " + v0["detail"])
                v.case = cases[v0["index"]]
                raise v
    finally:
        try:
            os.remove(path)
            os.rmdir(work)
        except OSError:
            pass
    for c in cases:
        ctx.begin(c)
        ctx.nontrivial_if(True)
        ctx.label("flags:-O,-OO")
        ctx.end()


def check_optimised(case, ctx):
    """plain replay of an optimised-interpreter case: again in -O / -OO children"""
    from vf import opt

    opt.run_optimised("C13", "fault-enumeration", [case], "replay", module="vf.c13child", ctx=ctx)


def fuzz_custom(ctx, seed, tier, shard, nshards, n):
    from vf.fuzz.harness import fuzz_clause

    # even shards: empty corpus; odd shards: a few fixed byte patterns long enough to decode into every site
    corpus = [] if shard % 2 == 0 else [bytes((k * m + 7) % 256 for k in range(96)) for m in (1, 3, 5, 7, 11, 13, 17, 19, 23)]
    ctx.label("corpus:" + ("patterns" if corpus else "empty"))
    fuzz_clause(ctx, "vf.fuzz.c13_target", n, seed, f"c13-{shard}", corpus, max_len=256)


def check_fuzzcase(case, ctx):
    from vf.fuzz.c13_target import check

    check(case, ctx)

PROPERTY = Property(
    pid="C13",
    level="fault_enumeration",
    clauses=[
        Clause(name="optimised-interpreter", kind="custom", custom=optimised_custom, check=check_optimised, quick=160, thorough=1600, shards_quick=16, shards_thorough=16,
               rule="the fault enumeration of clause fault-enumeration on generated valid calls, executed in child interpreters started with -O and with -OO "
                    "(assert statements and __debug__ blocks compiled away): same oracle; a replay file is a plain case of fault-enumeration and is replayed in such children"),
        Clause(name="fault-enumeration", strategy=STRAT, check=check_c13, quick=1600, thorough=24000,
               rule="one generated valid call (2..5 teams x 1..3 players, any outcome encoding / options); ALL sites x fault kinds of the grammar enumerated on it "
                    "for rate and the three predicts (100-400 faulty calls per case); non-trivial = the case contains faults at depth >= 2 (player slot, "
                    "element of ranks/scores) or foreign-model ratings (always true for rate)"),
        Clause(name="accepted-then-edited-in-place", strategy=mutated_cases(), check=check_mutated_in_place, quick=1500, thorough=30000,
               rule="a lobby (one outer list object) is accepted by one operation, edited IN PLACE into a malformed one (wrong container / empty team / "
                    "non-rating or foreign player at a drawn slot, or cut down to one team) and passed again to the same model: must be rejected without side "
                    "effect; op pairs and edits drawn"),
        Clause(name="atheris-garbage", kind="custom", custom=fuzz_custom, check=check_fuzzcase, quick=10000, thorough=800000, shards_quick=2, shards_thorough=16,
               rule="coverage-guided libFuzzer campaign: a byte-chosen site of a small valid call receives an object built from a grammar (None, bool, int, float, "
                    "str, bytes, own / foreign ratings, object(), nested list / tuple / set / dict); the target's own predicate decides well-formedness; "
                    "non-trivial = nested site or structured / foreign garbage"),
    ],
    rule="generated valid calls x exhaustive enumeration of the malformed-argument grammar (wrong container at each nesting level, too few teams, empty team, "
         "non-rating / foreign-model players at every slot, wrong-length / non-numeric ranks and scores at every position, both selectors); oracle: exception type "
         "is exactly TypeError or ValueError, snapshot of every reachable rating (id, name, mu, sigma) and of vars(model) unchanged; the unfaulted call is accepted; "
         "distinct by SHA-1 of the valid call",
    assumptions=[
        "falsy ranks/scores (None, [], 0, '') are 'not given' per the statement's 'given (non-empty)' and are neither required to be rejected nor accepted",
        "Decimal, Fraction, numpy scalars, NaN and inf are generated on neither side",
    ],
)
