"""C11 — predict_rank ranks agree with its probabilities and complement predict_draw."""
from __future__ import annotations

import math

from hypothesis import strategies as st

from vf.core import Clause, Property, Violation
from vf.osk import guarded, mk_model, mk_teams, model_for
from vf.predgen import pred_cases, pred_labels


def check_c11(case, ctx):
    cfg, teams = case["cfg"], case["teams"]
    kind = cfg["kind"]
    n = len(teams)
    m = model_for(cfg, case)
    objs = mk_teams(m, teams)
    out = guarded(m.predict_rank, objs, what="predict_rank")
    ctx.called()
    for lab in pred_labels(case):
        ctx.label(lab)
    if not isinstance(out, list) or len(out) != n:
        raise Violation("shape", f"{kind}: {n} teams, predict_rank returned {out!r}")
    ranks, probs = [], []
    for i, item in enumerate(out):
        if not (isinstance(item, tuple) and len(item) == 2):
            raise Violation("shape", f"{kind}: element {i} is {item!r}")
        r, p = item
        if not (isinstance(r, int) and not isinstance(r, bool) and 1 <= r <= n):
            raise Violation("rank-range", f"{kind}: rank {r!r} of team {i} not an int in 1..{n}: {out}")
        if not (isinstance(p, (int, float)) and not isinstance(p, bool) and math.isfinite(p) and -1e-12 <= p <= 1 + 1e-12):
            raise Violation("prob-range", f"{kind}: probability {p!r} of team {i}")
        ranks.append(r)
        probs.append(p)
    ties = False
    for a in range(n):
        for b in range(n):
            if probs[a] > probs[b] and not ranks[a] < ranks[b]:
                raise Violation("rank-order", f"{kind}: p[{a}]={probs[a]!r} > p[{b}]={probs[b]!r} but ranks {ranks[a]} vs {ranks[b]}: {out}")
            if a < b and probs[a] == probs[b]:
                ties = True
                if ranks[a] != ranks[b]:
                    raise Violation("rank-tie", f"{kind}: equal probabilities {probs[a]!r} of teams {a}, {b} but ranks {ranks[a]} vs {ranks[b]}: {out}")
    best = max(range(n), key=lambda i: probs[i])
    if ranks[best] != 1:
        raise Violation("argmax-not-first", f"{kind}: most likely team {best} has rank {ranks[best]}: {out}")
    m_same = mk_model(cfg)
    objs_same = mk_teams(m_same, teams)
    for t in objs_same:
        for pl in t:
            pl.id = "shared-id"
    out_same = guarded(m_same.predict_rank, objs_same, what="predict_rank (shared ids)")
    ctx.called()
    if out_same != out:
        raise Violation("depends-on-ids", f"{kind}: predict_rank = {out!r}, but {out_same!r} when all ratings carry the same id")
    # input order: the probability at position i belongs to team i -> permuting teams permutes the result
    perm = case["perm"]
    m2 = mk_model(cfg)
    out2 = guarded(m2.predict_rank, mk_teams(m2, [teams[k] for k in perm]), what="predict_rank")
    ctx.called()
    for k, old in enumerate(perm):
        if abs(out2[k][1] - probs[old]) > 1e-12:
            raise Violation("input-order", f"{kind}: team {old} has probability {probs[old]!r}, but position {k} of the permuted call ({perm}) has {out2[k][1]!r}")
    if n >= 3:
        m3 = mk_model(cfg)
        d = guarded(m3.predict_draw, mk_teams(m3, teams), what="predict_draw")
        ctx.called()
        tot = math.fsum(probs) + d
        if abs(tot - 1.0) > n * n * 1e-13:
            raise Violation("rank-plus-draw", f"{kind}: sum of predict_rank probabilities {math.fsum(probs)!r} + predict_draw {d!r} = {tot!r}")
    if n >= 3 and case.get("then_rate"):
        # the ordinary flow on ONE model and the same objects: predict_rank, rate (updates these objects in place), predict_rank again
        r2 = guarded(m.rate, objs, what="rate", ranks=list(range(n)))
        out2 = guarded(m.predict_rank, r2, what="predict_rank")
        d2 = guarded(m.predict_draw, r2, what="predict_draw")
        ctx.called(3)
        tot2 = math.fsum(p for _, p in out2) + d2
        if abs(tot2 - 1.0) > n * n * 1e-13:
            raise Violation("rank-plus-draw:after-rate", f"{kind}: after rate() on the same objects, sum of predict_rank probabilities + predict_draw = {tot2!r}")
        fresh = mk_model(cfg)
        out3 = guarded(fresh.predict_rank, mk_teams(fresh, [[[p.mu, p.sigma] for p in t] for t in r2]), what="predict_rank")
        if out3 != out2:
            raise Violation("stale-after-rate", f"{kind}: predict_rank after rate() on the same objects = {out2!r}, on fresh objects with the updated values {out3!r}")
        ctx.label("predict-rate-predict")
    if ties:
        ctx.label("probability-tie")
    ctx.nontrivial_if(n >= 3 and (ties or len(set(probs)) >= 3))


@st.composite
def cases(draw):
    c = draw(pred_cases(regimes=("generic", "identical", "identical", "near_equal", "near_equal", "corner", "dyadic")))
    teams = c["teams"]
    n = len(teams)
    if n >= 3 and draw(st.booleans()):
        # plant exact copies (adjacent or not, 2-way or 3-way) among other teams
        src = draw(st.integers(0, n - 1))
        for _ in range(draw(st.integers(1, 2))):
            dst = draw(st.integers(0, n - 1))
            if dst != src:
                teams[dst] = [list(p) for p in teams[src]]
    c["perm"] = list(draw(st.permutations(list(range(n)))))
    c["then_rate"] = draw(st.integers(0, 2)) == 0
    return c


def _svc_recurring(data, cfg):
    from vf import service

    return [{"op": op, "teams": t} for t in service.lineups(data, cfg, k=8) for op in ("predict_rank", "predict_draw")]


def _svc_judge(spec, out, ctx):
    from vf import service

    kind = spec["cfg"]["kind"]
    rec = spec["recurring"]
    for when in ("first", "last"):
        for k in range(0, len(rec) if out[when] else 0, 2):
            teams = rec[k]["teams"]
            n = len(teams)
            rk, dr = out[when][k], out[when][k + 1]
            where = f"{kind}: {n} teams ({'first calls of the process' if when == 'first' else 'after ' + str(out['fillers']) + ' other calls through the same model'})"
            if service.raised(rk) or service.raised(dr):
                raise Violation(f"service:{when}:raised", f"{where}: predict_rank / predict_draw raised: {rk!r} / {dr!r}"[:600])
            probs = [p for _, p in rk]
            ranks = [r for r, _ in rk]
            if len(rk) != n or any(not (isinstance(p, (int, float)) and -1e-12 <= p <= 1 + 1e-12) for p in probs) or any(not (isinstance(r, int) and 1 <= r <= n) for r in ranks):
                raise Violation(f"service:{when}:shape-or-range", f"{where}: predict_rank = {rk!r}")
            for a in range(n):
                for b in range(n):
                    if probs[a] > probs[b] and not ranks[a] < ranks[b]:
                        raise Violation(f"service:{when}:rank-order", f"{where}: p[{a}]={probs[a]!r} > p[{b}]={probs[b]!r} but ranks {ranks[a]}, {ranks[b]}")
                    if probs[a] == probs[b] and ranks[a] != ranks[b]:
                        raise Violation(f"service:{when}:rank-ties", f"{where}: equal probabilities {probs[a]!r} with ranks {ranks[a]}, {ranks[b]}")
            if n >= 3 and abs(sum(probs) + dr - 1.0) > n * n * 1e-13:
                raise Violation(f"service:{when}:complement", f"{where}: sum of predict_rank probabilities {sum(probs)!r} + predict_draw {dr!r} != 1")


def _svc_judge_all(spec, out, ctx):
    _svc_judge(spec, out, ctx)
    # a team seen at the very start next to never-seen teams in one call: same relations
    rec2 = []
    o2 = []
    for m in out.get("mixed", []):
        rec2 += [{"op": "predict_rank", "teams": m["teams"]}, {"op": "predict_draw", "teams": m["teams"]}]
        o2 += [m["results"]["predict_rank"], m["results"]["predict_draw"]]
    if rec2:
        _svc_judge(dict(spec, recurring=rec2), {"first": [], "last": o2, "fillers": out["fillers"]}, ctx)


def _svc(i):
    from vf import service

    if not hasattr(_svc, "fns"):
        _svc.fns = service.make_clause_functions(_svc_recurring, _svc_judge_all)
    return _svc.fns[i]


PROPERTY = Property(
    pid="C11",
    clauses=[
        Clause(name="long-running-service", kind="custom", custom=lambda *a: _svc(0)(*a), check=lambda *a: _svc(1)(*a), quick=48, thorough=128, shards_quick=16, shards_thorough=16,
               rule="one fresh child interpreter and ONE long-lived model per case: predict_rank and predict_draw on 11 recurring line-ups first, then 9 000 (quick) / "
                    "70 000 (thorough) other calls with ever new line-ups, then the recurring calls again: ranks consistent with probabilities, complement identity "
                    "with predict_draw (>= 3 teams) - early and late; non-trivial = at least 4 200 calls in between"),Clause(name="rank-consistency", strategy=cases(), check=check_c11, quick=8000, thorough=150000,
                    rule="one list of teams (exact copies planted in adjacent / non-adjacent positions, 2- and 3-way; 1-ulp-apart teams); non-trivial = >= 3 teams with "
                         "an exact probability tie or >= 3 distinct probabilities")],
    rule="generated teams; oracle on one output: length n in input order, probabilities in [0,1], ranks ints in 1..n, strictly larger probability <=> strictly "
         "smaller rank, equal probabilities share a rank (exact float comparisons), argmax has rank 1; n >= 3: sum p + predict_draw = 1 (n^2 x 1e-13); distinct by SHA-1",
    assumptions=[],
)

from vf import opt as _opt  # noqa: E402

PROPERTY.clauses.append(_opt.optimised("C11", next(c for c in PROPERTY.clauses if c.name == "rank-consistency"), quick=64, thorough=640))
