"""C08 — totality: valid games give finite ratings and probabilities, never an exception."""
from __future__ import annotations

import math

from hypothesis import strategies as st

from vf import dense, gen
from vf.core import Clause, Property, Violation
from vf.league import OracleLeague
from vf.osk import GAMMA_NAMES, call_kwargs, eff_tau, mk_model, mk_teams
from vf.stateful import machine_factory, replayer


def finite(x):
    return isinstance(x, (int, float)) and not isinstance(x, bool) and math.isfinite(x)


def total_check(cfg, teams, call, ctx=None):
    """The oracle shared by the Hypothesis clause and the atheris target."""
    kind = cfg["kind"]
    model = mk_model(cfg)
    total_check.last_model = model
    objs = mk_teams(model, teams)
    n = len(teams)
    for op in ("predict_win", "predict_draw", "predict_rank"):
        try:
            out = getattr(model, op)(objs)
        except Exception as e:  # noqa: BLE001
            raise Violation(f"{op}:raised:{type(e).__name__}", f"{kind} {op} raised {type(e).__name__}: {e}") from None
        if ctx:
            ctx.called()
        if op == "predict_win":
            ok = isinstance(out, list) and len(out) == n and all(finite(p) for p in out)
        elif op == "predict_draw":
            ok = finite(out)
        else:
            ok = isinstance(out, list) and len(out) == n and all(isinstance(r, int) and finite(p) for r, p in out)
        if not ok:
            raise Violation(f"{op}:nonfinite", f"{kind} {op} returned {out!r}")
    try:
        res = model.rate(objs, **call_kwargs(call))
    except Exception as e:  # noqa: BLE001
        raise Violation(f"rate:raised:{type(e).__name__}", f"{kind} rate({call}) raised {type(e).__name__}: {e}") from None
    if ctx:
        ctx.called()
    for i, t in enumerate(res):
        for j, p in enumerate(t):
            if not (finite(p.mu) and finite(p.sigma)):
                raise Violation("rate:nonfinite", f"{kind} rate({call}): player {i},{j} -> mu={p.mu!r} sigma={p.sigma!r}")
    return res


def check_c08(case, ctx):
    cfg, teams, call = case["cfg"], case["teams"], case["call"]
    res = total_check(cfg, teams, call, ctx)
    if case.get("then"):
        # a second valid game through the same model object (fresh ratings): totality must not depend on what was called before
        nxt = case["then"]
        model = total_check.last_model
        objs = mk_teams(model, nxt["teams"])
        try:
            model.predict_draw(objs)
            r2 = model.rate(objs, **call_kwargs(nxt["call"]))
        except Exception as e:  # noqa: BLE001
            raise Violation(f"second-call:raised:{type(e).__name__}",
                            f"{cfg['kind']}: after rate({call}) on the same model, rate({nxt['call']}) raised {type(e).__name__}: {e}") from None
        ctx.called(2)
        for t in r2:
            for p in t:
                if not (finite(p.mu) and finite(p.sigma)):
                    raise Violation("second-call:nonfinite", f"{cfg['kind']}: after rate({call}), rate({nxt['call']}) returned mu={p.mu!r} sigma={p.sigma!r}")
        ctx.label("second-call")
    for lab in gen.game_labels(case):
        ctx.label(lab)
    tau = eff_tau(cfg, call)
    big = max(len(t) for t in teams) >= 8
    zero = any(p[1] == 0.0 for t in teams for p in t)
    floor = False
    for t, tr in zip(teams, res):
        for p, r in zip(t, tr):
            infl = math.sqrt(p[1] * p[1] + tau * tau)
            if infl > 0 and abs(r.sigma / infl - math.sqrt(cfg["kappa"])) <= 1e-12 * math.sqrt(cfg["kappa"]) + 1e-15:
                floor = True
    if zero:
        ctx.label("sigma=0")
    if floor:
        ctx.label("kappa-floor-binding")
    if big:
        ctx.label("team>=8")
    ctx.nontrivial_if(big or zero or floor or cfg["scale"] != 1.0 or case["meta"].get("target_x") is not None)


@st.composite
def cases(draw):
    g = draw(gen.games(max_teams=8, max_size=16, allow_zero_sigma=True,
                       regimes=["corner", "team_corner", "team_corner", "max_gap", "generic", "targeted", "targeted", "near_equal", "identical", "dyadic"],
                       cfg_kw={"kappa_lo": 1e-12, "tm_relative_kappa": False}))
    cfg, call = g["cfg"], g["call"]
    tau = eff_tau(cfg, call)
    if tau < 1e-6 * cfg["beta"]:
        for t in g["teams"]:
            for p in t:
                if p[1] == 0.0:
                    p[1] = 1e-4 * cfg["beta"]
    if draw(st.booleans()):
        g2 = draw(gen.games(cfg=cfg, max_teams=4, max_size=4, allow_zero_sigma=True, regimes=["corner", "generic", "identical", "team_corner", "team_corner"]))
        tau2 = eff_tau(cfg, g2["call"])
        if tau2 < 1e-6 * cfg["beta"]:
            for t in g2["teams"]:
                for p in t:
                    if p[1] == 0.0:
                        p[1] = 1e-4 * cfg["beta"]
        g["then"] = {"teams": g2["teams"], "call": g2["call"]}
    return g


def service_custom(ctx, seed, tier, shard, nshards, n):
    """One fresh child interpreter and ONE long-lived model per case, 9 000 (quick) / 70 000 (thorough) valid calls with ever new line-ups
    through it (vf/servicechild.py, shared with C14): nothing may raise, every number finite - however long the model has been in use."""
    from hypothesis import HealthCheck, given, settings
    from hypothesis import seed as hseed

    from vf.props.c14 import SERVICE_CHECKPOINTS, run_service

    specs = []
    K = 9000 if tier == "quick" else 70000

    @hseed(seed)
    @settings(max_examples=n + 1, database=None, deadline=None, suppress_health_check=list(HealthCheck))
    @given(st.data())
    def collect(data):
        cfg = data.draw(gen.configs(gammas=GAMMA_NAMES))
        d = [cfg["mu"], cfg["sigma"]]
        rec = [{"op": "rate", "teams": [[list(d)], [list(d)]], "call": {"ranks": [0, 0]}}]
        specs.append({"cfg": cfg, "recurring": rec, "prng": data.draw(st.integers(0, 2 ** 32 - 1)), "K": K, "checkpoints": [c for c in SERVICE_CHECKPOINTS if c <= K]})

    collect()
    specs = specs[:n] if shard == 0 else specs[1:n + 1]
    for k, spec in enumerate(specs):
        ctx.begin(spec)
        check_service(spec, ctx, f"{shard}-{k}")
        ctx.label("kind:" + spec["cfg"]["kind"], "gamma:" + spec["cfg"]["gamma"])
        ctx.end()


def check_service(spec, ctx, tag="replay"):
    from vf.props.c14 import run_service

    try:
        out = run_service(spec, "c08-" + tag, judge=False)
    except Violation as v:
        v.case = spec
        raise
    ctx.called(out["fillers"])
    if out.get("first_raised"):
        f = out["first_raised"]
        v = Violation("service:raised:" + f["error"].split("(")[0], f"{spec['cfg']['kind']} (gamma {spec['cfg']['gamma']}): call number {f['after']} through one long-lived model, "
                                                                     f"{f['job']['op']}({f['job'].get('call', {})}) on {f['job']['teams']}, raised {f['error']}")
        v.case = spec
        raise v
    if out.get("first_nonfinite"):
        f = out["first_nonfinite"]
        v = Violation("service:nonfinite", f"{spec['cfg']['kind']}: call number {f['after']} through one long-lived model returned {f['result']}")
        v.case = spec
        raise v
    ctx.nontrivial_if(out["fillers"] >= 4200)


def fuzz_custom(ctx, seed, tier, shard, nshards, n):
    """atheris / libFuzzer campaign: even shards start from the empty corpus, odd shards from the golden-shaped seed games."""
    from vf.fuzz.c08_target import seed_corpus
    from vf.fuzz.harness import fuzz_clause

    corpus = seed_corpus() if shard % 2 == 1 else []
    ctx.label("corpus:" + ("golden-shapes" if corpus else "empty"))
    fuzz_clause(ctx, "vf.fuzz.c08_target", n, seed, f"c08-{shard}", corpus, max_len=1024)


class TotalLeague(OracleLeague):
    """League history over the widest configuration domain (kappa down to 1e-12, every gamma callback, corner ratings, teams of up to 8):
    ratings are fed back game after game until they leave the numeric domain (then retired); every number finite, nothing raised."""
    ORACLES = ("total",)
    PID = "C08"
    MAX_SIZE = 8

    @classmethod
    def init_strategy(cls):
        @st.composite
        def init(draw):
            cfg = draw(gen.configs(gammas=GAMMA_NAMES, kappa_lo=1e-12, tm_relative_kappa=False))
            beta = cfg["beta"]
            n = draw(st.integers(5, 16))
            style = draw(st.sampled_from(["spread", "corner", "new-players", "settled", "far-apart"]))
            players = []
            for k in range(n):
                if style == "new-players":
                    players.append([cfg["mu"], cfg["sigma"]])
                elif style == "corner":
                    players.append([draw(st.sampled_from([-20.0, 20.0, 0.0, 6.0])) * beta, draw(st.sampled_from([1e-4, 10.0, 2.0])) * beta])
                elif style == "settled":
                    players.append([draw(st.floats(-20.0, 20.0)) * beta, draw(st.floats(1e-4, 1e-2)) * beta])
                elif style == "far-apart":
                    players.append([(-18.0 if k % 2 else 18.0) * beta + draw(st.floats(-1.0, 1.0)) * beta, draw(st.floats(0.01, 1.0)) * beta])
                else:
                    players.append([draw(st.floats(-20.0, 20.0)) * beta, draw(gen.logu(1e-4, 10.0)) * beta])
            return {"op": "init", "cfg": cfg, "players": players, "style": style}

        return init()


TotalLeague.RULES = dict(OracleLeague.RULES)


PROPERTY = Property(
    pid="C08",
    clauses=[
        Clause(name="atheris-totality", kind="custom", custom=fuzz_custom, check=check_c08, quick=8000, thorough=640000, shards_quick=2, shards_thorough=16,
               rule="coverage-guided libFuzzer campaign (atheris, openskill instrumented): bytes decoded into a structured valid game of the same domain, same "
                    "oracle inside the target; shards alternate between the empty corpus and seed inputs shaped like the repository's golden games"),
        Clause(name="dense-two-team-sweep", strategy=dense.two_team_sweep(), check=check_c08, quick=8000, thorough=300000,
               rule="two-team games whose standardised gap is drawn uniformly from [-10, 10], log-uniformly near 0, or (1 in 10) within +-0.15 of the points "
                    "where erfc / exp / the epsilon guards change regime (8.126, 37.52, 38.475, 38.58); all three outcomes; same oracle"),
        Clause(name="totality", strategy=cases(), check=check_c08, quick=8000, thorough=200000,
               rule="predict_win, predict_draw, predict_rank and rate on one generated game of the widest stated domain (2..8 teams, 1..16 players, corner-heavy "
                    "values, sigma = 0 with tau >= 1e-6 beta, kappa down to 1e-12, scale 1e-3..1e3); non-trivial = team of >= 8 players, or sigma = 0, or the "
                    "kappa floor binds, or scale != 1, or a pair constructed in the 5-9 sigma band"),
        Clause(name="league-history", kind="stateful", machine=machine_factory(TotalLeague), check=replayer(TotalLeague),
               quick=320, thorough=6000, steps_quick=40, steps_thorough=200,
               rule="rule-based machine: 5-16 rating objects on one model over the widest configuration domain (kappa down to 1e-12, every gamma callback, "
                    "corner / settled / far-apart ratings, teams of up to 8); rate() results fed back game after game (the returned list itself rated "
                    "again, per-call options alternating) with the three predictions interleaved on the same objects; players leaving the numeric "
                    "domain are retired; oracle: nothing raised, every number finite; non-trivial = >= 8 games with some player in >= 4"),
        Clause(name="long-running-service", kind="custom", custom=service_custom, check=check_service, quick=32, thorough=128, shards_quick=16, shards_thorough=16,
               rule="one fresh child interpreter and ONE long-lived model per case (any gamma callback): 9 000 (quick) / 70 000 (thorough) valid rate / predict "
                    "calls with ever new line-ups, scorelines and options expanded from a Hypothesis-drawn PRNG seed; oracle: nothing raised, every number "
                    "finite, however long the model has been in use; non-trivial = at least 4 200 calls ran"),
    ],
    rule="generated games over the widest valid domain; oracle: no exception of any kind, every returned number finite; distinct by SHA-1 of the case",
    assumptions=["sigma = 0 is only generated together with an effective tau >= 1e-6 beta (a tau whose square underflows is not 'tau > 0' numerically)"],
)

from vf import opt as _opt  # noqa: E402

PROPERTY.clauses.append(_opt.optimised("C08", next(c for c in PROPERTY.clauses if c.name == "totality"), quick=64, thorough=640))
