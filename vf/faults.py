"""Malformed-argument grammar (DESIGN.md section 3): a valid call plus ONE fault applied at an enumerated site.

enumerate_faults(n_teams, sizes, selector) -> list of JSON fault descriptors
build(model, objs, kwargs, fault, kind)    -> (teams_arg, kwargs) with the fault applied (fresh containers)

Only *truthy* malformed ranks / scores are produced: the property says "given (non-empty)", and the
implementation (like its documentation) treats any falsy value as "not given".
"""
from __future__ import annotations

from vf.osk import KINDS, classes

TEAMS_CONTAINERS = ["tuple", "dict", "set", "str", "generator", "range", "int", "float", "true", "none"]
TEAM_CONTAINERS = ["tuple", "dict", "set", "str", "generator", "range", "int", "float", "true", "none"]
PLAYER_FAULTS = ["none", "int", "float", "str", "list2", "tuple2", "dict", "object"] + ["foreign:" + k for k in KINDS]
SEL_CONTAINERS = ["tuple", "dict", "set", "str", "generator", "range", "int", "float", "true"]
ELEM_FAULTS = ["none", "str", "list", "tuple", "dict", "object", "complex"]


def enumerate_faults(kind, sizes, selector, op="rate"):
    """selector: 'ranks' | 'scores' | None (which one the valid call supplies)."""
    n = len(sizes)
    out = []
    for f in TEAMS_CONTAINERS:
        out.append({"site": "teams", "fault": f})
    out.append({"site": "teams", "fault": "zero-teams"})
    out.append({"site": "teams", "fault": "one-team"})
    for i in range(n):
        for f in TEAM_CONTAINERS:
            out.append({"site": "team", "i": i, "fault": f})
        out.append({"site": "team", "i": i, "fault": "empty"})
        for j in range(sizes[i]):
            for f in PLAYER_FAULTS:
                if f == "foreign:" + kind:
                    continue
                out.append({"site": "player", "i": i, "j": j, "fault": f})
    if op != "rate":
        return out
    for sel in ("ranks", "scores"):
        # a malformed selector can be injected whether or not the valid call had one (it replaces / adds it)
        if selector is not None and sel != selector:
            continue
        for f in SEL_CONTAINERS:
            out.append({"site": sel, "fault": f})
        out.append({"site": sel, "fault": "shorter"})
        out.append({"site": sel, "fault": "longer"})
        out.append({"site": sel, "fault": "much-longer"})
        for k in range(n):
            for f in ELEM_FAULTS:
                out.append({"site": sel + "_elem", "k": k, "fault": f})
    out.append({"site": "both", "fault": "ranks-and-scores"})
    out.append({"site": "both", "fault": "ranks-and-malformed-scores"})
    return out


def depth(fault):
    return {"teams": 0, "team": 1, "player": 2, "ranks": 1, "scores": 1, "ranks_elem": 2, "scores_elem": 2, "both": 1}[fault["site"]]


def _container(kind, items, n_hint=2):
    """A wrong container holding (where it can) the same items."""
    if kind == "tuple":
        return tuple(items)
    if kind == "dict":
        return {k: v for k, v in enumerate(items)}
    if kind == "set":
        try:
            return set(items)
        except TypeError:
            return set(tuple(x) if isinstance(x, list) else x for x in items)
    if kind == "str":
        return "ab" + "c" * max(0, n_hint - 2)
    if kind == "generator":
        return (x for x in items)
    if kind == "range":
        return range(max(1, n_hint))
    if kind == "int":
        return 7
    if kind == "float":
        return 2.5
    if kind == "true":
        return True
    if kind == "none":
        return None
    raise KeyError(kind)


NAMES = [None, "Bob", "{TAG} Bob", "{}", "{0}", "100%s", "%(x)s", "a{b", "x\\1", "{rating.mu}", ""]
_NAME_ROT = [0]


def _bad_player(fault, foreign_models):
    if fault == "none":
        return None
    if fault == "int":
        return 25
    if fault == "float":
        return 25.0
    if fault == "str":
        return "player"
    if fault == "list2":
        return [25.0, 8.0]
    if fault == "tuple2":
        return (25.0, 8.0)
    if fault == "dict":
        return {"mu": 25.0, "sigma": 8.0}
    if fault == "object":
        return object()
    if fault.startswith("foreign:"):
        # display names as users choose them (gamer tags): braces, percent signs and backslashes are what error messages built with
        # str.format / % / re choke on.  The name rotates so that every kind shows up within a few faulty calls.
        _NAME_ROT[0] += 1
        name = NAMES[_NAME_ROT[0] % len(NAMES)]
        return foreign_models[fault.split(":", 1)[1]].rating(25.0, 8.0, **({"name": name} if name is not None else {}))
    raise KeyError(fault)


def _bad_elem(fault):
    return {"none": None, "str": "1", "list": [1], "tuple": (1,), "dict": {"a": 1}, "object": object(), "complex": 1j}[fault]


def foreign_models():
    return {k: c() for k, c in classes().items()}


def build(objs, kwargs, fault, foreign):
    """objs: fresh [[rating]] of the model under test; kwargs: valid rate kwargs (fresh lists).
    Returns (teams_arg, kwargs, extra_objects) - extra_objects are foreign ratings that must stay untouched too."""
    teams = [list(t) for t in objs]
    kw = {k: (list(v) if isinstance(v, list) else v) for k, v in kwargs.items()}
    extra = []
    site, f = fault["site"], fault["fault"]
    n = len(teams)
    if site == "teams":
        if f == "zero-teams":
            return [], kw, extra
        if f == "one-team":
            return [teams[0]], kw, extra
        return _container(f, teams, n), kw, extra
    if site == "team":
        i = fault["i"]
        if f == "empty":
            teams[i] = []
        else:
            teams[i] = _container(f, teams[i], len(teams[i]))
        return teams, kw, extra
    if site == "player":
        bad = _bad_player(f, foreign)
        if f.startswith("foreign:"):
            extra.append(bad)
        teams[fault["i"]][fault["j"]] = bad
        return teams, kw, extra
    if site in ("ranks", "scores"):
        base = kw.get(site) or list(range(n))
        other = "scores" if site == "ranks" else "ranks"
        kw.pop(other, None)
        if f == "shorter":
            kw[site] = list(base[:-1]) if n > 1 else [1, 2]
            if not kw[site]:
                kw[site] = [1, 2, 3]
        elif f == "longer":
            kw[site] = list(base) + [1]
        elif f == "much-longer":
            kw[site] = list(base) * 3 + [0]
        else:
            kw[site] = _container(f, base, n)
        return teams, kw, extra
    if site in ("ranks_elem", "scores_elem"):
        sel = site.split("_")[0]
        other = "scores" if sel == "ranks" else "ranks"
        kw.pop(other, None)
        base = list(kw.get(sel) or range(n))
        base[fault["k"]] = _bad_elem(f)
        kw[sel] = base
        return teams, kw, extra
    if site == "both":
        kw["ranks"] = list(kw.get("ranks") or range(1, n + 1))
        if f == "ranks-and-scores":
            kw["scores"] = [float(n - k) for k in range(n)]
        else:
            kw["scores"] = tuple(range(1, n + 1))
        return teams, kw, extra
    raise KeyError(site)


def describe(fault):
    return ":".join(str(fault[k]) for k in ("site", "fault")) + "".join(f"@{fault[k]}" for k in ("i", "j", "k") if k in fault)
