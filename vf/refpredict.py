"""Closed forms of the three predictions, exactly as C12 states them, in mpmath (DESIGN.md 4.2)."""
from __future__ import annotations

import mpmath as mp

from vf.gauss import M, Phi


def _agg(teams):
    mus = [mp.fsum(M(p[0]) for p in t) for t in teams]
    vars_ = [mp.fsum(M(p[1]) ** 2 for p in t) for t in teams]
    return mus, vars_


def inv_Phi(p):
    return mp.sqrt(2) * mp.erfinv(2 * M(p) - 1)


def margin(teams, beta):
    N = sum(len(t) for t in teams)
    return mp.sqrt(N) * M(beta) * inv_Phi((1 + M(1) / N) / 2)


def predict_win(teams, beta):
    beta = M(beta)
    n = len(teams)
    mus, vs = _agg(teams)
    if n == 2:
        N = len(teams[0]) + len(teams[1])
        p = Phi((mus[0] - mus[1]) / mp.sqrt(N * beta ** 2 + vs[0] + vs[1]))
        return [p, 1 - p]
    denom = M(n * (n - 1)) / 2
    return [mp.fsum(Phi((mus[a] - mus[b]) / mp.sqrt(n * beta ** 2 + vs[a] + vs[b])) for b in range(n) if b != a) / denom for a in range(n)]


def predict_rank_probs(teams, beta):
    beta = M(beta)
    n = len(teams)
    mus, vs = _agg(teams)
    m = margin(teams, beta)
    denom = M(n * (n - 1)) / 2
    return [mp.fsum(Phi((mus[a] - mus[b] - m) / mp.sqrt(n * beta ** 2 + vs[a] + vs[b])) for b in range(n) if b != a) / denom for a in range(n)]


def predict_draw(teams, beta):
    beta = M(beta)
    n = len(teams)
    mus, vs = _agg(teams)
    m = margin(teams, beta)
    tot = M(0)
    for a in range(n):
        for b in range(n):
            if a == b:
                continue
            s = mp.sqrt(n * beta ** 2 + vs[a] + vs[b])
            d = mus[a] - mus[b]
            tot += Phi((m - d) / s) - Phi((-m - d) / s)  # P(|D_ab| < m), D_ab ~ N(d, s^2)
    return tot if n == 2 else tot / (n * (n - 1))
