"""Dense one-dimensional sweeps of *derived* quantities (DESIGN.md section 10, 'dense sweeps').

A defect confined to a narrow window is usually a window in a derived quantity of a PAIR of teams: the standardised gap
x = (mu_i - mu_q) / c_iq, the ratio sigma / beta, tau / sigma, the share of a member.  A generic generator over (mu, sigma)
visits such a window only by accident; these strategies draw the derived quantity itself uniformly and construct the game from it,
so that n cases cover the swept interval with spacing (hi - lo) / n.
"""
from __future__ import annotations

import math

from hypothesis import strategies as st

from vf import gen


FLOAT_THRESHOLDS = [8.125890664701906, 37.519379347, 38.4754, 38.58, 26.5, 37.0]


@st.composite
def two_team_sweep(draw, kinds=gen.KINDS, x_lo=-10.0, x_hi=10.0, outcomes=("win", "loss", "draw")):
    """-> a full rate() case (like gen.games) of two teams whose standardised gap x is drawn uniformly from [x_lo, x_hi]."""
    cfg = draw(gen.configs(kinds=kinds, scales=draw(st.integers(0, 3)) == 0, gammas=["default", "default", "one", "inv_k"]))
    beta = cfg["beta"]
    tau = cfg["tau"]
    mode = draw(st.integers(0, 9))
    huge = mode == 1  # the largest standardised gaps the domain admits (13-16 settled players per side at opposite ends of the mu range): up to ~450
    far = mode == 0 or huge  # neighbourhoods of the thresholds of the underlying float functions, far out in the tails
    if huge:
        sizes = draw(st.sampled_from([[16, 16], [16, 16], [13, 13], [16, 10], [10, 16], [14, 15], [16, 12]]))
        tau = draw(st.sampled_from([0.0, 1e-6 * beta, beta / 50.0]))  # passed per call below: a large tau would shrink every gap
    else:
        sizes = draw(st.sampled_from([[4, 4], [4, 5], [8, 8], [3, 4]])) if far else draw(st.sampled_from([[1, 1], [1, 1], [1, 1], [2, 2], [1, 2], [3, 1], [2, 1]]))
    # sigma relative to beta: uniform on a log scale (also a derived quantity worth sweeping), defaults included
    def sg():
        if huge:
            return draw(st.floats(-4.0, -1.5).map(lambda u: 10.0 ** u)) * beta  # c_iq within 1 % of sqrt(2) beta
        if far:
            return draw(st.floats(-4.0, -0.5).map(lambda u: 10.0 ** u)) * beta  # settled players: c_iq close to sqrt(2) beta, so large |x| fit the mu range
        return draw(st.one_of(st.just(2.0), st.floats(-4.0, 1.0).map(lambda u: 10.0 ** u))) * beta
    teams = [[[0.0, sg()] for _ in range(k)] for k in sizes]
    if huge:
        # log-uniform from 10 to the largest gap the mu range admits (where exp(x), exp(2x), x * x * ... leave the float range: 354.9, 709.8 / 2 ...)
        x = 10.0 ** draw(st.floats(1.0, math.log10(460.0))) * draw(st.sampled_from([1.0, -1.0]))
    elif far:
        # where erfc / exp / the epsilon guards change regime: Phi(-x) = 2^-52 (8.126), smallest normal (37.52), Phi(-x) -> 0 (38.4754),
        # exp(-x^2/2) -> 0 (38.58); +-0.15 around each, both signs
        x = (draw(st.sampled_from(FLOAT_THRESHOLDS)) + draw(st.floats(-0.15, 0.15))) * draw(st.sampled_from([1.0, -1.0]))
    elif draw(st.integers(0, 4)) == 0:
        # ... and the neighbourhood of x = 0 on a log scale (nearly even pairs: 1e-12 .. 1 standard deviations)
        x = 10.0 ** draw(st.floats(-12.0, 0.0)) * draw(st.sampled_from([1.0, -1.0]))
    else:
        x = draw(st.floats(x_lo, x_hi))
    var = lambda t: sum(p[1] * p[1] + tau * tau for p in t)  # noqa: E731
    c = math.sqrt(var(teams[0]) + var(teams[1]) + 2 * beta * beta) * (2.0 if cfg["kind"] == "TMP" else 1.0)
    gap = x * c
    if far:
        # spread the gap over all members of both teams (each stays inside [-20 beta, 20 beta])
        for p in teams[0]:
            p[0] = gap / 2.0 / sizes[0]
        for p in teams[1]:
            p[0] = -gap / 2.0 / sizes[1]
    else:
        centre = draw(st.sampled_from([0.0, 0.0, 6.0, -3.0])) * beta  # where the pair sits on the scale
        # put the gap on the first member of team 0
        m1 = centre / max(1, sizes[1])
        for p in teams[1]:
            p[0] = m1
        tot1 = m1 * sizes[1]
        rest = centre / max(1, sizes[0])
        for p in teams[0]:
            p[0] = rest
        teams[0][0][0] = rest + (tot1 + gap - rest * sizes[0])
    for t in teams:
        for p in t:
            # keep the case valid whatever was drawn (x is recomputed below)
            p[0] = max(-20.0 * beta, min(20.0 * beta, p[0]))
    outcome = draw(st.sampled_from(list(outcomes)))
    ranks = {"win": [0, 1], "loss": [1, 0], "draw": [0, 0]}[outcome]
    call = {"ranks": ranks}
    if huge:
        call["tau"] = tau
    opts = draw(gen.call_options(cfg)) if draw(st.integers(0, 3)) == 0 and not huge else {}
    for k, v in opts.items():
        if v is not None:
            call[k] = v
    x_real = (sum(p[0] for p in teams[0]) - sum(p[0] for p in teams[1])) / c
    return {"cfg": cfg, "teams": teams, "call": call, "classes": ranks, "meta": {"regime": "dense-x", "enc": "int", "x": x_real, "outcome": outcome}}
