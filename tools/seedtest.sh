#!/bin/sh
# usage: tools/seedtest.sh <name> <patch.diff> <demo.py|-> <tier> <Cxx> [Cyy ...]
# Applies the patch to a scratch worktree of /repo's HEAD (outside /repo and /verif), confirms that the repository's tests still
# pass and that the demonstration fails with / passes without the change, then runs the named checks against that tree.
# Prints one summary line per step; removes the worktree afterwards.
name=$1; patch=$2; demo=$3; tier=$4; shift 4
HERE="$(cd "$(dirname "$0")/.." && pwd)"
wt=/root/scratch/m/$name
mkdir -p /root/scratch/m
git -C /repo worktree remove --force $wt 2>/dev/null
git -C /repo worktree add -q --detach $wt HEAD || exit 2
if ! git -C $wt apply "$patch"; then echo "[$name] PATCH-DOES-NOT-APPLY"; git -C /repo worktree remove --force $wt; exit 2; fi
t=$(cd $wt && PYTHONPATH=$wt PYTHONDONTWRITEBYTECODE=1 /venv/bin/python -m pytest -q -p no:cacheprovider 2>&1 | tail -1)
echo "[$name] tests-with-change: $t"
if [ "$demo" != "-" ]; then
  PYTHONPATH=$wt PYTHONDONTWRITEBYTECODE=1 timeout 600 /venv/bin/python "$demo" >/dev/null 2>&1; d1=$?
  PYTHONPATH=/repo PYTHONDONTWRITEBYTECODE=1 timeout 600 /venv/bin/python "$demo" >/dev/null 2>&1; d0=$?
  echo "[$name] demo: with-change exit=$d1 unchanged exit=$d0"
fi
for p in "$@"; do
  s=$(date +%s)
  out=$(cd $HERE && VERIF_TREE=$wt ./check $p --tier $tier --no-evidence 2>/dev/null); rc=$?
  e=$(date +%s)
  nb=$(echo "$out" | grep -c '^VIOLATION')
  echo "[$name] $p rc=$rc ${nb} buckets $((e-s))s :: $(echo "$out" | grep -m1 'violation clause' | cut -c1-260)"
done
git -C /repo worktree remove --force $wt
