#!/usr/bin/env python3
"""Regenerates /verif/MANIFEST.json from the table below (keeps it schema-valid at all times)."""
import json, os, sys
HERE = os.path.dirname(os.path.dirname(os.path.abspath(__file__)))
sys.path.insert(0, HERE)

CHECKS = {
    # pid: (technique, level text, level note, design ref)
}
def add(pid, technique, text, note, ref=None):
    CHECKS[pid] = (technique, text, note, ref or f"DESIGN.md section 5, {pid}")

add("C01", "Hypothesis-generated games and RuleBasedStateMachine league histories vs independent mpmath reference model (differential oracle with C17-derived intervals)",
    "Exploration: thousands of generated (model, configuration, game, outcome encoding, per-call option) cases per run, a dense uniform sweep of the standardised two-team gap (incl. the neighbourhoods where erfc / exp / the epsilon guards change regime) and lobbies beyond 8 teams, each compared per player with a 50-digit evaluation of the published update; league histories (rating objects fed back through one model, the returned list rated again, predictions interleaved) compared with the reference after every game; shrunk failures become replay files. Right level because the property quantifies over a continuous input space with an exact executable oracle.",
    "Trusts vf/refmodel.py as a transcription of Weng & Lin (2011) and mpmath's ncdf/npdf; TM margins outside [1e-8,1e-2] excluded (counted); TM-part doubled c_iq is the open known finding tmp-ciq-doubled.")
add("C03", "Hypothesis metamorphic test: several encodings of one weak order must give bit-identical results (also with ONE caller-kept list object rated twice and then negated); RuleBasedStateMachine twin leagues (canonical ranks vs drawn encoding) identical after every game; symmetry anchor for mixed-type ties",
    "Exploration over generated games x weak orders x encodings (int/float/mixed/bool/huge/relatively-close floats/small ints/negative/scores/omitted) with an exact (bitwise) metamorphic oracle; history-dependent failures are saved with the cases that preceded them.",
    "Rank values restricted to finite int/float/bool; 'identical' read as bit-identical.")
add("C14", "Hypothesis stateful machine (history independence incl. earlier calls that raised part-way), generated line-level thread schedules under a sys.settrace scheduler, differential across fresh child interpreters with different PYTHONHASHSEED, call order and repetition, long-running service in a child process (recurring calls unchanged after 9 000 / 70 000 generated calls through one model)",
    "Exploration of call histories (incl. earlier out-of-range calls), identities (names, ids, aliasing, caller-modified return values), harness-owned interleavings (<= 6 preemptions, <= 4 threads, source-line and bytecode granularity, preemptions right after writes to the shared model or to module-level containers, also at cold start in fresh interpreters), hash seeds and call orders in fresh processes; every result compared bit for bit with the same call on a fresh model / in another process.",
    "Bounded preemptions (<= 6 drawn + <= 4 write-triggered) and threads (<= 4); a quarter of the schedules at bytecode granularity; free-running thread stress is only additional.")
add("C15", "Hypothesis metamorphic/differential test: per-call option vs model constructed with that option, bit-identical, on single calls and along RuleBasedStateMachine twin-league histories (one long-lived model with per-call options vs newly constructed models)",
    "Exploration over generated games and option values (0, 0.0, 1e-300, ints, default, large; True/False) with fresh model and ratings on each side; options also passed positionally (rate and constructor) and compared with the keyword form.",
    "'Returns what ... returns' read as bit-identical (mu, sigma).")
add("C17", "Hypothesis-generated (x, t) sweep + exhaustive +-64-ulp walks at every branch threshold vs exact 50-digit mpmath values; revisit of early points after 40 000 / 200 000 other evaluations (and after evaluations with wrongly typed arguments) in a fresh child process",
    "Exploration: dense generated sweep of [-40,40] x [1e-8,1e-2] with exactly the statement's bounds as oracle; ulp-neighbourhoods of each threshold enumerated exhaustively inside a case.",
    "mpmath at 50 digits taken as exact; a sweep, not an interval proof.")

add("C02", "Hypothesis-generated games with all-distinct named players; per-slot identity + mpmath posterior of that very player + pre-sorted differential; RuleBasedStateMachine league histories with the same per-slot oracle after every game",
    "Exploration: each generated call is checked for shape, id/name per slot, duplicates, per-slot value against the independent reference, bit-identical agreement with the pre-sorted presentation and all-or-nothing mutation of the passed-in objects; league histories (the same named objects through many games, returned or passed-in objects fed back, the returned list rated again) check the same after every game.",
    "Per-slot values of TM games with a pair beyond 5 sigma are left to C01 (excluded, counted).")
add("C04", "Hypothesis metamorphic test with exhaustive n! team permutations (n<=5) and drawn player permutations, compared within a stated numerical budget",
    "Exploration over generated games; inside each case the permutation group is enumerated exhaustively for n<=5 (24 drawn permutations above); oracle = per-player agreement within the float budget of DESIGN.md 4.4.",
    "Budget constants calibrated on the repaired tree (observed maxima reported in evidence); TM branch-boundary cases excluded (counted); partial pairing restricted to tie-order-preserving permutations as the statement says.")
add("C05", "Hypothesis metamorphic/sign-invariant tests over one game rated under several outcomes (win/draw/loss, place exchange, identical teams); clause (a) also after every game of RuleBasedStateMachine league histories",
    "Exploration: four clauses (first/last place and proportionality; win/draw/loss ordering; exchange with a better-placed team; identical teams ordered by place) with only a rounding floor as tolerance; half of the cases are constructed 5-9 sigma mismatches.",
    "'Identical teams' reading as in DESIGN.md C05; strictness asserted only where the expected gap exceeds 1000x the rounding floor.")
add("C06", "Hypothesis single-call invariants + two RuleBasedStateMachine league histories (ratings fed back; returned or passed-in objects kept, returned list rated again, predictions interleaved) + 2000-game long runs",
    "Exploration of inputs, configurations and histories: invariant sigma finite, >0, <= sqrt(prior^2+tau^2), <= prior under limit_sigma after every call and along every generated league history.",
    "Players leaving the valid input domain are retired from a history; history gammas bounded by 1.")
add("C07", "Hypothesis invariant test: precision-weighted sum of mu changes vs a tolerance relative to the summands' magnitude, on single calls and after every game of RuleBasedStateMachine league histories",
    "Exploration over generated games (3/8 dyadic so sums are exact): the balance identity is evaluated on every output with tolerance 1e-9 of the cancelling terms plus the stated TM draw-margin term.",
    "Tolerance relative to summand magnitude (the net change is mathematically zero).")
add("C08", "Hypothesis corner-heavy generation over the widest stated domain (incl. a second call through the same model) + RuleBasedStateMachine league histories (ratings fed back, predictions and failing calls interleaved) + long-running service (one child process, one model, 9 000 / 70 000 generated calls) + atheris coverage-guided fuzz target with the same oracle",
    "Exploration: no exception and all numbers finite for rate and the three predicts on 2..8 teams x 1..16 players, sigma down to 0 (with tau), kappa down to 1e-12, scale 1e-3..1e3; libFuzzer campaign over the same structured domain.",
    "sigma=0 only with effective tau >= 1e-6 beta.")
add("C09", "Hypothesis invariant + metamorphic tests (permutation, identical teams, single-member mu increment) on predict_win, on single calls and on the recurring / mixed calls of a long-running service (one child process, one model, 9 000 / 70 000 generated calls)",
    "Exploration over generated team lists incl. identical and 1-ulp-apart teams; oracle = range, sum, symmetry, exact one-half, monotonicity with an 8-ulp floor.",
    "'Identical teams' = equal member lists in the same order.")
add("C10", "Hypothesis invariant + metamorphic tests (permutation, gap widening, equalisation) on predict_draw",
    "Exploration over generated team lists, with 1v1 small-sigma games (where the two-team form touches 1) and large teams stressed.",
    "1e-12 range slack; equalised games that leave the mu range are excluded (counted).")
add("C11", "Hypothesis invariant tests on predict_rank output (exact float comparisons) + sum-to-one with predict_draw, on single calls and on the recurring / mixed calls of a long-running service (one child process, one model, 9 000 / 70 000 generated calls)",
    "Exploration over generated team lists with planted exact copies (probability ties) in adjacent/non-adjacent positions.",
    "none beyond finite inputs in the valid range.")
add("C12", "Hypothesis-generated teams vs independent 50-digit mpmath evaluation of the stated closed forms (differential oracle), on single calls and on the recurring / mixed calls of a long-running service (one child process, one model, 9 000 / 70 000 generated calls)",
    "Exploration: every number of the three predict operations compared to 1e-9 absolute with the closed forms written from the statement.",
    "predict_rank uses n*beta^2 also for n=2; mpmath erfinv as inverse CDF.")
add("C13", "Exhaustive fault enumeration (all sites x fault kinds of a malformed-argument grammar) inside Hypothesis-generated valid calls (also on models that have been through a failed call, and on lobbies with one rating object in two slots); atheris target injecting grammar-built objects",
    "Fault enumeration: for every generated valid call all faults of the grammar are injected one at a time for rate and the three predicts (also by editing an already accepted lobby in place and passing it again); oracle = exact exception type and unchanged snapshots of all reachable ratings and of the model; a libFuzzer campaign injects grammar-built objects at byte-chosen sites.",
    "Falsy ranks/scores are 'not given'; Decimal/Fraction/NaN/inf not generated.")
add("C16", "Hypothesis metamorphic tests: rescaled and shifted copies of one game compared within the numerical budget; predictions within 1e-12",
    "Exploration over generated games x factors (2^k exact, 10^u) x shifts.",
    "Gamma family scale/shift invariant by construction; branch-boundary and out-of-range shifted cases excluded (counted).")
add("C18", "Hypothesis-generated rating pairs (constructed equal ordinals) + exhaustive operator x operand-kind x side grid + RuleBasedStateMachine over ratings that change between comparisons (assignment, rate(), rate() calls that fail part-way)",
    "Exploration of value pairs with exact oracles (is-identity of booleans), exhaustive enumeration of the foreign-operand grid inside each case, and leaderboard histories (compare, sort, update by assignment / rate(), compare again).",
    "Finite mu/sigma only.")
add("C19", "Differential testing across the five model classes (predictions, C13 verdicts, rating-object behaviour, BT-part vs BT-full on single games and along RuleBasedStateMachine twin-league histories) + exhaustive signature comparison",
    "Exploration of generated inputs pushed through all five copies and compared bit for bit; the public surface comparison is exhaustive.",
    "Class-specific names normalised before comparing signatures/reprs.")
add("C20", "Hypothesis construction/copy tests + RuleBasedStateMachine twin leagues (one restored from stored values between games)",
    "Exploration of constructions, copies, single-call restores and league histories with drawn restore points and methods; all comparisons bitwise.",
    "create_rating not exercised with the empty name.")

ALL = [f"C{n:02d}" for n in range(1, 21)]
props = {json.loads(l)["id"]: json.loads(l) for l in open(os.path.join(HERE, "properties.jsonl"))}
NA_REASON = {}

manifest = {
    "version": 1,
    "setup_cmd": "./setup.sh",
    "hooks": {
        "guard": "OPENSKILL_VERIF",
        "enable": "none needed: every observation is made on public return values, vars(model) and a sys.settrace tracer installed by the harness; the guard name is reserved and unused",
        "baseline_off_cmd": "cd /repo && /venv/bin/python -m pytest -ra -q -p no:cacheprovider --timeout=900 --continue-on-collection-errors",
        "source_commits": [],
        "add_only": True,
    },
    "engines": [
        {"name": "vf", "path": "vf/", "serves_properties": sorted(CHECKS),
         "kind_free_text": "property-based testing framework on Hypothesis 6.168 (strategies, rule-based state machines, shrinking), sharded over 16 processes; mpmath reference oracles; sys.settrace thread scheduler; atheris fuzz targets"},
    ],
    "checks": [],
    "notes": "Repairs of genuine defects found by these checks are the unguarded 'fix:' commits in /repo listed as 'fixed:' lines in known_findings.txt; the open known finding is listed there as 'open:'. Replay: ./check <id> --replay <file>. Every check first replays its regression corpus (regressions/<id>/*.json; VERIF_NO_REGRESSIONS=1 skips it) and then runs the generated search sharded over 16 processes; VERIF_SEED selects the Hypothesis / libFuzzer seeds. VERIF_TREE=<path> (development only; the registered commands never set it) points a check at another checkout than /repo. Most checks also re-run a sample of their generated cases, with the same plain check function, in child interpreters started with -O and -OO (clauses optimised-interpreter-of-*), and about one generated case in five is judged on a model that has first been through a call that did not complete normally (prelude; vf/failing.py). seeded/ holds the seeded changes (patch, demonstration, meta.json with the outcome per check), the valid changes used as soundness tests (ok-*), and the mutation screen.",
    "not_applicable": [],
}
for pid in ALL:
    if pid in CHECKS:
        tech, text, note, ref = CHECKS[pid]
        manifest["checks"].append({
            "property_id": pid,
            "quick_cmd": f"./check {pid} --tier quick",
            "thorough_cmd": f"./check {pid} --tier thorough",
            "evidence_file": f"evidence/{pid}.json",
            "replay_cmd_template": f"./check {pid} --replay {{path}}",
            "engine": "vf",
            "level_claimed": {"category": "fault_enumeration" if pid == "C13" else "exploration", "text": text, "design_ref": ref},
            "level_note": note,
            "technique": tech,
        })
    else:
        manifest["not_applicable"].append({"property_id": pid, "reason": NA_REASON.get(pid, "check not built yet in this revision of /verif (planned: see DESIGN.md section 5); not a statement that the technique cannot apply")})
json.dump(manifest, open(os.path.join(HERE, "MANIFEST.json"), "w"), indent=1)
try:
    import jsonschema
    jsonschema.validate(manifest, json.load(open("/root/.vp/MANIFEST.schema.json")))
    print("MANIFEST.json valid;", len(manifest["checks"]), "checks,", len(manifest["not_applicable"]), "not_applicable")
except ImportError:
    print("written (jsonschema not importable here)")
