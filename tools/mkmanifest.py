#!/usr/bin/env python3
"""Regenerates /verif/MANIFEST.json from the table below (keeps it schema-valid at all times)."""
import json, os, sys
HERE = os.path.dirname(os.path.dirname(os.path.abspath(__file__)))
sys.path.insert(0, HERE)

CHECKS = {
    # pid: (technique, level text, level note, design ref)
}
def add(pid, technique, text, note, ref=None):
    CHECKS[pid] = (technique, text, note, ref or f"DESIGN.md section 5, {pid}")

add("C01", "Hypothesis-generated games vs independent mpmath reference model (differential oracle with C17-derived intervals)",
    "Exploration: thousands of generated (model, configuration, game, outcome encoding, per-call option) cases per run, each compared per player with a 50-digit evaluation of the published update; shrunk failures become replay files. Right level because the property quantifies over a continuous input space with an exact executable oracle.",
    "Trusts vf/refmodel.py as a transcription of Weng & Lin (2011) and mpmath's ncdf/npdf; TM margins outside [1e-8,1e-2] excluded (counted); TM-part doubled c_iq is the open known finding tmp-ciq-doubled.")
add("C03", "Hypothesis metamorphic test: several encodings of one weak order must give bit-identical results; symmetry anchor for mixed-type ties",
    "Exploration over generated games x weak orders x encodings (int/float/mixed/bool/huge/negative/scores/omitted) with an exact (bitwise) metamorphic oracle.",
    "Rank values restricted to finite int/float/bool; 'identical' read as bit-identical.")
add("C14", "Hypothesis stateful machine (history independence), generated line-level thread schedules under a sys.settrace scheduler, child interpreters per PYTHONHASHSEED",
    "Exploration of call histories, identities, harness-owned interleavings (<= 6 preemptions, <= 4 threads, source-line granularity) and hash seeds; every result compared bit for bit with the same call on a fresh model.",
    "Preemption granularity is the source line; bounded preemptions/threads; free-running thread stress is only additional.")
add("C15", "Hypothesis metamorphic/differential test: per-call option vs model constructed with that option, bit-identical",
    "Exploration over generated games and option values (0, 0.0, 1e-300, ints, default, large; True/False) with fresh model and ratings on each side.",
    "'Returns what ... returns' read as bit-identical (mu, sigma).")
add("C17", "Hypothesis-generated (x, t) sweep + exhaustive +-64-ulp walks at every branch threshold vs exact 50-digit mpmath values",
    "Exploration: dense generated sweep of [-40,40] x [1e-8,1e-2] with exactly the statement's bounds as oracle; ulp-neighbourhoods of each threshold enumerated exhaustively inside a case.",
    "mpmath at 50 digits taken as exact; a sweep, not an interval proof.")

ALL = [f"C{n:02d}" for n in range(1, 21)]
props = {json.loads(l)["id"]: json.loads(l) for l in open(os.path.join(HERE, "properties.jsonl"))}
NA_REASON = {}

manifest = {
    "version": 1,
    "setup_cmd": "./setup.sh",
    "hooks": {
        "guard": "OPENSKILL_VERIF",
        "enable": "none needed: every observation is made on public return values, vars(model) and a sys.settrace tracer installed by the harness; the guard name is reserved and unused",
        "baseline_off_cmd": "cd /repo && /venv/bin/python -m pytest -ra -q -p no:cacheprovider --timeout=900 --continue-on-collection-errors",
        "source_commits": [],
        "add_only": True,
    },
    "engines": [
        {"name": "vf", "path": "vf/", "serves_properties": sorted(CHECKS),
         "kind_free_text": "property-based testing framework on Hypothesis 6.168 (strategies, rule-based state machines, shrinking), sharded over 16 processes; mpmath reference oracles; sys.settrace thread scheduler; atheris fuzz targets"},
    ],
    "checks": [],
    "notes": "Repairs of genuine defects found by these checks are the unguarded 'fix:' commits in /repo listed as 'fixed:' lines in known_findings.txt; the open known finding is listed there as 'open:'. Replay: ./check <id> --replay <file>.",
    "not_applicable": [],
}
for pid in ALL:
    if pid in CHECKS:
        tech, text, note, ref = CHECKS[pid]
        manifest["checks"].append({
            "property_id": pid,
            "quick_cmd": f"./check {pid} --tier quick",
            "thorough_cmd": f"./check {pid} --tier thorough",
            "evidence_file": f"evidence/{pid}.json",
            "replay_cmd_template": f"./check {pid} --replay {{path}}",
            "engine": "vf",
            "level_claimed": {"category": "exploration", "text": text, "design_ref": ref},
            "level_note": note,
            "technique": tech,
        })
    else:
        manifest["not_applicable"].append({"property_id": pid, "reason": NA_REASON.get(pid, "check not built yet in this revision of /verif (planned: see DESIGN.md section 5); not a statement that the technique cannot apply")})
json.dump(manifest, open(os.path.join(HERE, "MANIFEST.json"), "w"), indent=1)
try:
    import jsonschema
    jsonschema.validate(manifest, json.load(open("/root/.vp/MANIFEST.schema.json")))
    print("MANIFEST.json valid;", len(manifest["checks"]), "checks,", len(manifest["not_applicable"]), "not_applicable")
except ImportError:
    print("written (jsonschema not importable here)")
