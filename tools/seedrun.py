#!/usr/bin/env python3
"""Confirms seeded changes and records which checks catch them.

usage: tools/seedrun.py [--tier quick] [--all-checks] [pattern ...]

For every /verif/seeded/<id>/ whose name contains one of the patterns (all when none given):
  1. a scratch worktree of /repo's HEAD is created under /root/scratch/m/<id> (outside /repo and /verif) and patch.diff applied;
  2. the repository's own test suite is run against it (must still pass: 101 tests);
  3. demo.py (when present) is run against the changed tree (must exit 1) and against /repo (must exit 0);
  4. the checks named in meta.json ("property" + "also_expected"; with --all-checks: all twenty) are run with VERIF_TREE pointing at
     the scratch tree (exactly the code path of the registered commands, which use VERIF_TREE=/repo by default);
  5. the worktree is removed; the outcome is written into meta.json under "confirmed" / "checks".
"""
import json
import os
import subprocess
import sys
import time

HERE = os.path.dirname(os.path.dirname(os.path.abspath(__file__)))
ALL = [f"C{n:02d}" for n in range(1, 21)]


def sh(cmd, **kw):
    return subprocess.run(cmd, shell=True, capture_output=True, text=True, **kw)


def main():
    args = sys.argv[1:]
    tier = "quick"
    all_checks = False
    vseed = None
    pats = []
    while args:
        a = args.pop(0)
        if a == "--tier":
            tier = args.pop(0)
        elif a == "--all-checks":
            all_checks = True
        elif a == "--seed":
            vseed = args.pop(0)
        else:
            pats.append(a)
    ids = sorted(d for d in os.listdir(os.path.join(HERE, "seeded")) if os.path.isdir(os.path.join(HERE, "seeded", d)) and not d.startswith("ok-"))
    if pats:
        ids = [i for i in ids if any(p in i for p in pats)]
    head = sh("git -C /repo rev-parse --short HEAD").stdout.strip()
    for sid in ids:
        d = os.path.join(HERE, "seeded", sid)
        meta = json.load(open(os.path.join(d, "meta.json")))
        wt = f"/root/scratch/m/{sid}"
        os.makedirs("/root/scratch/m", exist_ok=True)
        sh(f"git -C /repo worktree remove --force {wt}")
        if sh(f"git -C /repo worktree add -q --detach {wt} HEAD").returncode != 0:
            print(f"[{sid}] cannot create worktree")
            continue
        try:
            if sh(f"git -C {wt} apply {d}/patch.diff").returncode != 0:
                print(f"[{sid}] PATCH DOES NOT APPLY")
                meta["confirmed"] = {"applies": False, "repo_head": head}
                json.dump(meta, open(os.path.join(d, "meta.json"), "w"), indent=1)
                continue
            env = dict(os.environ, PYTHONPATH=wt, PYTHONDONTWRITEBYTECODE="1")
            t = sh("/venv/bin/python -m pytest -q -p no:cacheprovider 2>&1 | tail -1", cwd=wt, env=env).stdout.strip()
            conf = {"applies": True, "repo_head": head, "tests_with_change": t}
            demo = os.path.join(d, "demo.py")
            if os.path.exists(demo):
                conf["demo_exit_with_change"] = subprocess.run(["/venv/bin/python", demo], env=env, capture_output=True, timeout=900).returncode
                conf["demo_exit_unchanged"] = subprocess.run(["/venv/bin/python", demo], env=dict(env, PYTHONPATH="/repo"), capture_output=True, timeout=900).returncode
            meta["confirmed"] = conf
            props = ALL if all_checks else [meta["property"]] + list(meta.get("also_expected", []))
            checks = meta.setdefault("checks", {})
            line = [f"[{sid}] tests: {t}; demo {conf.get('demo_exit_with_change')}/{conf.get('demo_exit_unchanged')}"]
            for p in props:
                t0 = time.time()
                r = subprocess.run([os.path.join(HERE, "check"), p, "--tier", tier, "--no-evidence"], capture_output=True, text=True,
                                   env=dict(os.environ, VERIF_TREE=wt, VERIF_NO_REGRESSIONS="1", **({"VERIF_SEED": vseed} if vseed else {})), cwd=HERE)
                viol = [ln for ln in r.stdout.splitlines() if ln.startswith("VIOLATION")]
                first = next((ln.strip() for ln in r.stdout.splitlines() if ln.strip().startswith("violation clause")), "")
                rec = {"tier": tier, "exit": r.returncode, "violation_lines": len(viol), "seconds": round(time.time() - t0), "first": first[:300]}
                if vseed:
                    checks.setdefault(p, {}).setdefault("other_seeds", {})[vseed] = {"exit": r.returncode, "violation_lines": len(viol)}
                else:
                    other = checks.get(p, {}).get("other_seeds")
                    checks[p] = rec
                    if other:
                        checks[p]["other_seeds"] = other
                line.append(f"{p}:rc={r.returncode}/{len(viol)}b/{round(time.time() - t0)}s")
            meta["ran"] = ("tools/seedrun.py: patch applied to a scratch git worktree of /repo HEAD under /root/scratch/m (removed afterwards); repository tests, "
                           "demo.py and `./check <id> --tier %s` with VERIF_TREE=<worktree> and VERIF_NO_REGRESSIONS=1 (so that the outcome measures what the generators reach, not the regression corpus)" % tier)
            json.dump(meta, open(os.path.join(d, "meta.json"), "w"), indent=1)
            print(" ".join(line), flush=True)
        finally:
            sh(f"git -C /repo worktree remove --force {wt}")


if __name__ == "__main__":
    main()
