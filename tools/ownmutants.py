#!/usr/bin/env python3
"""Generates the planned sensitivity mutants of DESIGN.md section 7 as patches under /verif/seeded/own-<name>/patch.diff.

Each mutant is a (file, old, new) textual edit on /repo's HEAD, made in a scratch worktree (removed afterwards).
Only patches are written here; tools/seedtest.sh confirms tests-still-pass and runs the checks.
"""
import json
import os
import subprocess
import sys

WL = "openskill/models/weng_lin/"
PL, BTF, BTP, TMF, TMP, COMMON = (WL + f for f in ("plackett_luce.py", "bradley_terry_full.py", "bradley_terry_part.py",
                                                  "thurstone_mosteller_full.py", "thurstone_mosteller_part.py", "common.py"))

M = []


def mut(name, props, summary, needs, edits):
    M.append((name, props, summary, needs, edits))


mut("pl-tie-divisor", ["C01", "C07"], "PlackettLuce: the -p/A_q term of omega loses its 1/A_q tie divisor", "a game with a tie (A_q > 1)",
    [(PL, "                        omega -= i_mu_over_ce_over_sum_q / a[q]", "                        omega -= i_mu_over_ce_over_sum_q")])
mut("btf-tie-score", ["C01", "C05", "C07"], "BradleyTerryFull: a tie scores 0 instead of 0.5", "a game with a tie under BT-full",
    [(BTF, "                    s = 0.5", "                    s = 0.0")])
mut("btp-first-unpaired", ["C01", "C07"], "BradleyTerryPart: the first-placed team loses its neighbour when there are more than 4 teams", ">= 5 teams under BT-part",
    [(BTP, "        adjacent_teams = _ladder_pairs(team_ratings)\n", "        adjacent_teams = _ladder_pairs(team_ratings)\n        if len(adjacent_teams) > 4:\n            adjacent_teams[0] = []\n")])
mut("pl-no-kappa-floor", ["C08", "C01", "C06"], "PlackettLuce: the kappa floor under the square root is dropped", "a variance factor below kappa (large gamma or large delta)",
    [(PL, "                    max(1 - (sigma**2 / team_i.sigma_squared) * delta, self.kappa),", "                    1 - (sigma**2 / team_i.sigma_squared) * delta,")])
mut("tmf-percall-tau-max", ["C15", "C01", "C06"], "ThurstoneMostellerFull: a per-call tau smaller than the model's is ignored", "per-call tau below the model's tau",
    [(TMF, "        tau = tau if tau is not None else self.tau", "        tau = max(tau, self.tau) if tau is not None else self.tau")])
mut("btf-no-unwind-big", ["C02", "C04", "C01"], "BradleyTerryFull: results of games with more than 3 teams are returned in rank order", "> 3 teams with unsorted ranks",
    [(BTF, "            unwound_result = _unwind(tenet, result)[0]", "            unwound_result = _unwind(tenet, result)[0] if len(result) <= 3 else result")])
mut("tmp-limit-vs-sorted-prior", ["C02", "C06", "C01"], "ThurstoneMostellerPart: limit_sigma clamps against the prior of the rank-sorted slot", "limit_sigma with unsorted ranks and different sigmas",
    [(TMP, "            teams = ordered_teams\n            ranks = sorted(ranks)\n", "            teams = ordered_teams\n            ranks = sorted(ranks)\n            original_teams = copy.deepcopy(teams)\n            for t in original_teams:\n                for p in t:\n                    p.sigma = math.sqrt(max(p.sigma * p.sigma - tau_squared, 0.0))\n")])
mut("pl-int-scores", ["C03"], "PlackettLuce: scores are truncated to int when converted to ranks", "float scores that differ by less than 1",
    [(PL, "                ranks.append(_unary_minus(score))", "                ranks.append(int(_unary_minus(score)))")])
mut("btp-deepcopy-no-name", ["C20"], "BradleyTerryPartRating.__deepcopy__ drops the name", "deepcopy of a named rating",
    [(BTP, "        blp = BradleyTerryPartRating(self.mu, self.sigma, self.name)", "        blp = BradleyTerryPartRating(self.mu, self.sigma)")])
mut("tmf-deepcopy-no-id", ["C20"], "ThurstoneMostellerFullRating.__deepcopy__ does not copy the id", "deepcopy of a rating",
    [(TMF, "        tmf.id = self.id\n", "")])
mut("tmp-predict-win-N", ["C12", "C19"], "ThurstoneMostellerPart.predict_win uses the player count instead of the team count in the n > 2 performance variance", "predict_win with > 2 teams",
    [(TMP, "                    (mu_a - mu_b) / math.sqrt(n * self.beta**2 + sigma_a + sigma_b)\n                )\n            )\n\n        return [\n            (sum(team_prob) / denominator)",
      "                    (mu_a - mu_b) / math.sqrt(sum(len(_) for _ in teams) * self.beta**2 + sigma_a + sigma_b)\n                )\n            )\n\n        return [\n            (sum(team_prob) / denominator)")])
mut("btf-predict-draw-denominator", ["C10", "C11", "C12", "C19"], "BradleyTerryFull.predict_draw divides by n(n-1)/2 instead of n(n-1) for more than 4 teams", "predict_draw with > 4 teams",
    [(BTF, "        denominator = 1\n        if n > 2:\n            denominator = n * (n - 1)\n", "        denominator = 1\n        if n > 2:\n            denominator = n * (n - 1)\n        if n > 4:\n            denominator = n * (n - 1) / 2\n")])
mut("pl-predict-rank-no-reversal", ["C11", "C19"], "PlackettLuce.predict_rank returns ascending competition ranks (worst team gets 1)", "any predict_rank call with unequal probabilities",
    [(PL, "        ranks = [abs(_ - max_ordinal) + 1 for _ in ranks]", "        ranks = [_ for _ in ranks]")])
mut("btp-le-is-lt", ["C18", "C19"], "BradleyTerryPartRating.__le__ uses <", "two ratings with equal ordinals",
    [(BTP, "            if self.ordinal() <= other.ordinal():", "            if self.ordinal() < other.ordinal():")])
mut("tmf-teams-accept-tuple", ["C13", "C19"], "ThurstoneMostellerFull._check_teams accepts a tuple as a team", "a team given as a tuple",
    [(TMF, "                if isinstance(team, list):", "                if isinstance(team, (list, tuple)):")])
mut("w-guard-zero", ["C17", "C01"], "w() returns 0 on the asymptotic branch also for x < 0", "a Thurstone-Mosteller upset beyond 8.1 sigma",
    [(COMMON, "        return 1 if (x < 0) else 0", "        return 0")])
mut("btf-rating-or-default", ["C20", "C19"], "BradleyTerryFull.rating() falls back to the model default for falsy mu / sigma", "rating(mu=0) or rating(sigma=0)",
    [(BTF, "            mu if mu is not None else self.mu,\n            sigma if sigma is not None else self.sigma,", "            mu or self.mu,\n            sigma or self.sigma,")])
mut("pl-team-cache-by-id", ["C14", "C20"], "PlackettLuce caches team aggregates in a module-level dict keyed by the members' ids", "the same rating ids rated twice with different values",
    [(PL, "        result = []\n        for index, team in enumerate(game):\n            mu_summed = reduce(lambda x, y: x + y, map(lambda p: p.mu, team))\n            sigma_squared = reduce(lambda x, y: x + y, map(lambda p: p.sigma**2, team))\n",
      "        result = []\n        for index, team in enumerate(game):\n            key = tuple(p.id for p in team)\n            if key not in _TEAM_CACHE:\n                _TEAM_CACHE[key] = (\n                    reduce(lambda x, y: x + y, map(lambda p: p.mu, team)),\n                    reduce(lambda x, y: x + y, map(lambda p: p.sigma**2, team)),\n                )\n            mu_summed, sigma_squared = _TEAM_CACHE[key]\n"),
     (PL, '__all__: List[str] = ["PlackettLuce", "PlackettLuceRating"]\n', '__all__: List[str] = ["PlackettLuce", "PlackettLuceRating"]\n\n_TEAM_CACHE: Dict[Any, Any] = {}\n')])
mut("tmp-scratch-attr", ["C14"], "ThurstoneMostellerPart.rate keeps tau^2 in an instance attribute between the inflation and the limit_sigma step", "two threads interleaved inside rate() with different per-call tau and limit_sigma",
    [(TMP, "        tau_squared = tau * tau\n", "        tau_squared = tau * tau\n        self._tau_squared = tau_squared\n"),
     (TMP, "                    player_original = original_teams[team_index][player_index]\n                    if player.sigma <= player_original.sigma:",
      "                    player_original = original_teams[team_index][player_index]\n                    if self._tau_squared == 0.0:\n                        pass\n                    elif player.sigma <= player_original.sigma:")])
mut("tmp-scratch-attr-restored", ["C14"], "ThurstoneMostellerPart.rate parks tau^2 in an instance attribute (initialised in __init__, reset before returning) and reads it back in the limit_sigma step",
    "two threads inside rate() on one model at the same time with different per-call tau, one of them with limit_sigma; invisible to any sequential history and to before/after attribute snapshots",
    [(TMP, "        self.tau: float = float(tau)\n        self.limit_sigma: bool = limit_sigma\n", "        self.tau: float = float(tau)\n        self.limit_sigma: bool = limit_sigma\n        self._tau_squared: float = 0.0\n"),
     (TMP, "        tau_squared = tau * tau\n", "        tau_squared = tau * tau\n        self._tau_squared = tau_squared\n"),
     (TMP, "                    player_original = original_teams[team_index][player_index]\n                    if player.sigma <= player_original.sigma:",
      "                    player_original = original_teams[team_index][player_index]\n                    if self._tau_squared == 0.0:\n                        pass\n                    elif player.sigma <= player_original.sigma:"),
     (TMP, "                final_result.append(final_team)\n        return final_result", "                final_result.append(final_team)\n        self._tau_squared = 0.0\n        return final_result")])
mut("btf-single-line-race", ["C14"], "BradleyTerryFull.rate parks the per-call tau in an instance attribute and reads it back and resets it WITHIN ONE source line",
    "two threads inside rate() on one model; the preemption has to fall between two bytecode instructions of one line (no line-level schedule and no before/after snapshot can see it)",
    [(BTF, "        self.tau: float = float(tau)\n        self.limit_sigma: bool = limit_sigma\n", "        self.tau: float = float(tau)\n        self.limit_sigma: bool = limit_sigma\n        self._tau_tmp: float = 0.0\n"),
     (BTF, "        tau_squared = tau * tau\n", "        self._tau_tmp = tau; tau_squared = self._tau_tmp * self._tau_tmp; self._tau_tmp = 0.0  # noqa: E702\n")])
mut("btp-share-sigma-big-teams", ["C01", "C05"], "BradleyTerryPart: members of teams with more than 3 players share omega by sigma instead of sigma^2", "a team of >= 4 players with unequal sigmas under BT-part",
    [(BTP, "                mu += (sigma**2 / team_i.sigma_squared) * i_omega\n", "                if len(team_i.team) > 3:\n                    mu += (sigma / sum(p.sigma for p in team_i.team)) * i_omega\n                else:\n                    mu += (sigma**2 / team_i.sigma_squared) * i_omega\n")])
mut("pl-scores-validated-late", ["C13"], "PlackettLuce.rate validates the length of scores only after the tau inflation has modified the ratings", "scores of the wrong length",
    [(PL, "                if len(scores) != len(teams):\n                    raise ValueError(\n                        f\"Argument 'scores' must have the same number of elements as 'teams', \"\n                        f\"not {len(scores)}.\"\n                    )\n", ""),
     (PL, "        # Convert Score to Ranks\n", "        if scores and len(scores) != len(teams):\n            raise ValueError(\n                f\"Argument 'scores' must have the same number of elements as 'teams', \"\n                f\"not {len(scores)}.\"\n            )\n\n        # Convert Score to Ranks\n")])
mut("tmf-gamma-wrong-team-count", ["C01"], "ThurstoneMostellerFull passes the number of opponents instead of the number of teams as k to gamma", "a custom gamma that uses k",
    [(TMF, "                gamma_value = self.gamma(\n                    c_iq,\n                    len(team_ratings),", "                gamma_value = self.gamma(\n                    c_iq,\n                    len(team_ratings) - 1,")])


# planned mutants that the repository's own 101 tests already catch: not kept as seeded changes
CAUGHT_BY_SUITE = {"btf-predict-draw-denominator", "btf-rating-or-default", "btf-tie-score", "btp-le-is-lt", "pl-scores-validated-late", "pl-tie-divisor",
                   "tmp-limit-vs-sorted-prior", "w-guard-zero"}


def main():
    out_root = os.path.join(os.path.dirname(os.path.dirname(os.path.abspath(__file__))), "seeded")
    wt = "/root/scratch/m/_gen"
    subprocess.run(["git", "-C", "/repo", "worktree", "remove", "--force", wt], capture_output=True)
    os.makedirs("/root/scratch/m", exist_ok=True)
    subprocess.run(["git", "-C", "/repo", "worktree", "add", "-q", "--detach", wt, "HEAD"], check=True)
    try:
        for name, props, summary, needs, edits in M:
            if name in CAUGHT_BY_SUITE:
                continue
            subprocess.run(["git", "-C", wt, "checkout", "-q", "--", "."], check=True)
            okay = True
            for f, old, new in edits:
                p = os.path.join(wt, f)
                s = open(p).read()
                if s.count(old) != 1:
                    print(f"!! {name}: pattern occurs {s.count(old)}x in {f}")
                    okay = False
                    break
                open(p, "w").write(s.replace(old, new))
            if not okay:
                continue
            diff = subprocess.run(["git", "-C", wt, "diff"], capture_output=True, text=True).stdout
            d = os.path.join(out_root, "own-" + name)
            os.makedirs(d, exist_ok=True)
            open(os.path.join(d, "patch.diff"), "w").write(diff)
            json.dump({"property": props[0], "also_expected": props[1:], "summary": summary, "needs": needs, "origin": "planned sensitivity mutant (DESIGN.md section 7), written by the framework author",
                       "files": sorted(set(f for f, _, _ in edits))}, open(os.path.join(d, "meta.json"), "w"), indent=1)
            print("ok", name)
    finally:
        subprocess.run(["git", "-C", "/repo", "worktree", "remove", "--force", wt], capture_output=True)


if __name__ == "__main__":
    main()
