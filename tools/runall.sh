#!/bin/sh
# usage: tools/runall.sh [tier] [seed]   -- runs every check once, prints one status line each
cd "$(dirname "$0")/.."
TIER=${1:-quick}; SEED=${2:-1}
for n in 01 02 03 04 05 06 07 08 09 10 11 12 13 14 15 16 17 18 19 20; do
  s=$(date +%s)
  out=$(VERIF_SEED=$SEED ./check C$n --tier $TIER 2>/tmp/runall.err.$$); rc=$?
  e=$(date +%s)
  echo "C$n rc=$rc $((e-s))s $(echo "$out" | head -1 | cut -c1-110) $(echo "$out" | grep -c '^VIOLATION') viol $(echo "$out" | grep -c '^KNOWN-FINDING') known"
  [ $rc -ne 0 ] && { echo "$out" | grep -E "violation|VIOLATION|HARNESS" | cut -c1-400; head -30 /tmp/runall.err.$$; }
done
rm -f /tmp/runall.err.$$
