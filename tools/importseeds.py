#!/usr/bin/env python3
"""Copies sub-agent deliverables /tmp/mut/Cxx/{patchK.diff,demoK.py,metaK.json} into /verif/seeded/sa-Cxx-K/ (nothing else is read from there)."""
import json, os, shutil, sys
for pid in sys.argv[1:]:
    src = f"/tmp/mut/{pid}"
    for k in (1, 2):
        p = f"{src}/patch{k}.diff"
        if not os.path.exists(p):
            print("missing", p); continue
        d = f"/verif/seeded/sa-{pid}-{k}"
        os.makedirs(d, exist_ok=True)
        shutil.copy(p, d + "/patch.diff")
        if os.path.exists(f"{src}/demo{k}.py"):
            shutil.copy(f"{src}/demo{k}.py", d + "/demo.py")
        try:
            meta = json.load(open(f"{src}/meta{k}.json"))
        except Exception as e:
            meta = {"property": pid, "summary": "?", "needs": "?"}
        meta["property"] = pid
        meta["origin"] = "independent sub-agent given only the property text and a scratch worktree"
        json.dump(meta, open(d + "/meta.json", "w"), indent=1)
        print("imported", d)
