#!/usr/bin/env python3
"""usage: importseeds.py <root> <prefix> Cxx ...   Copies sub-agent deliverables <root>/Cxx/{patchK.diff,demoK.py,metaK.json} into /verif/seeded/sa-Cxx-K/ (nothing else is read from there)."""
import json, os, shutil, sys
ROOT, PREFIX = sys.argv[1], sys.argv[2]   # e.g. /tmp/mut2 sb
for pid in sys.argv[3:]:
    src = f"{ROOT}/{pid}"
    for k in (1, 2):
        p = f"{src}/patch{k}.diff"
        if not os.path.exists(p):
            print("missing", p); continue
        d = f"/verif/seeded/{PREFIX}-{pid}-{k}"
        os.makedirs(d, exist_ok=True)
        shutil.copy(p, d + "/patch.diff")
        if os.path.exists(f"{src}/demo{k}.py"):
            shutil.copy(f"{src}/demo{k}.py", d + "/demo.py")
        try:
            meta = json.load(open(f"{src}/meta{k}.json"))
        except Exception as e:
            meta = {"property": pid, "summary": "?", "needs": "?"}
        meta["property"] = pid
        meta["origin"] = "independent sub-agent given only the property text and a scratch worktree"
        json.dump(meta, open(d + "/meta.json", "w"), indent=1)
        print("imported", d)
