#!/usr/bin/env python3
"""Which lines / branches of openskill do the checks' generators actually execute?  (diagnostic, not a registered check)

Runs every clause in-process, single-threaded, with a small budget, under coverage.py (branch mode), and prints the
lines of openskill/ that no clause reached.  usage: PYTHONPATH=/repo:/verif:/verif/.deps /venv/bin/python tools/covreport.py [N]
"""
import importlib, os, sys, io
import coverage
N = int(sys.argv[1]) if len(sys.argv) > 1 else 150
cov = coverage.Coverage(source=["openskill"], branch=True, data_file=None)
cov.start()
from vf import runner  # noqa: E402
from vf.core import Ctx  # noqa: E402
for n in range(1, 21):
    pid = f"C{n:02d}"
    prop = importlib.import_module("vf.props." + pid.lower()).PROPERTY
    for c in prop.clauses:
        ctx = Ctx(pid, c.name)
        out = {"failures": []}
        try:
            if c.kind == "given":
                runner._run_given(c, ctx, 12345 + n, N, out)
            elif c.kind == "stateful":
                runner._run_stateful(c, ctx, 12345 + n, max(10, N // 10), c.steps_quick, out)
            elif c.name == "public-surface":
                c.custom(ctx, 1, "quick", 0, 1, 1)
        except Exception as e:  # noqa: BLE001
            print("error in", pid, c.name, repr(e)[:200])
        if out["failures"]:
            print("FAILURE in", pid, c.name, out["failures"][0]["bucket"])
cov.stop()
buf = io.StringIO()
cov.report(show_missing=True, file=buf, skip_covered=False)
print(buf.getvalue())
