#!/bin/sh
# thorough tier of the clauses added in the second build phase (one status line each)
cd "$(dirname "$0")/.."
run() { p=$1; shift; a=""; for c in "$@"; do a="$a --clause $c"; done; s=$(date +%s); out=$(VERIF_SEED=${SEED:-1} ./check $p --tier thorough --no-evidence $a 2>&1); rc=$?; e=$(date +%s); echo "$p $* rc=$rc $((e-s))s $(echo "$out" | grep -E '^\[C' | cut -c1-110)"; [ $rc -ne 0 ] && echo "$out" | grep -E "violation|VIOLATION|HARNESS|Error" | cut -c1-400 | head -8; }
run C01 league-vs-reference
run C02 league-slot-correspondence
run C03 encoding-twin-leagues
run C05 a-league-history
run C06 league-objects-history
run C07 league-history
run C08 league-history long-running-service
run C15 option-twin-leagues
run C17 revisit-after-many
run C18 leaderboard-history
run C19 btp-btf-twin-leagues
run C14 long-running-service history-independence cold-start-interleavings
run C04 permutation-equivariance
