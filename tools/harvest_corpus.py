#!/usr/bin/env python3
"""Builds the regression corpus from the replay files that accumulated under /verif/replays while the checks were run against seeded
changes, mutants and the pinned (pre-fix) tree.

A replay file qualifies when (1) it is small (<= 32 KB), (2) its clause has a plain check function that runs in-process, and (3) it PASSES
on the current /repo tree (a corpus entry that fails on the unchanged tree would be an alarm there).  At most 3 (the smallest) are kept per
(property, clause, bucket).  They are copied to /verif/regressions/<id>/corpus-*.json, which every check replays first, in both tiers.
Run with the check's PYTHONPATH:  PYTHONPATH=/repo:/verif:/verif/.deps /venv/bin/python -B tools/harvest_corpus.py
"""
import collections, json, os, shutil, sys
HERE = os.path.dirname(os.path.dirname(os.path.abspath(__file__)))
sys.path.insert(0, HERE)
from vf import runner  # noqa: E402
SKIP_CLAUSES = {"hash-seed-and-call-order", "cold-start-interleavings", "free-running-threads", "long-history", "atheris-totality", "long-running-service",
                "revisit-after-many", "atheris-garbage"}
groups = collections.defaultdict(list)
for pid in sorted(os.listdir(os.path.join(HERE, "replays"))):
    d = os.path.join(HERE, "replays", pid)
    for fn in os.listdir(d):
        p = os.path.join(d, fn)
        try:
            if os.path.getsize(p) > 32 * 1024:
                continue
            rec = json.load(open(p))
        except Exception:
            continue
        if rec.get("clause") in SKIP_CLAUSES:
            continue
        groups[(pid, rec.get("clause"), rec.get("bucket"))].append((os.path.getsize(p), p))
kept = dropped_fail = 0
for (pid, clause, bucket), files in sorted(groups.items()):
    prop = runner.load_property(pid)
    known = runner.load_known(pid)
    n = 0
    for size, p in sorted(files):
        if n >= 3:
            break
        try:
            status = runner.replay_file(prop, p, known)[0]
        except BaseException as e:  # noqa: BLE001
            status = "error"
        if status != "ok":
            dropped_fail += 1
            continue
        dest = os.path.join(HERE, "regressions", pid)
        os.makedirs(dest, exist_ok=True)
        shutil.copy(p, os.path.join(dest, "corpus-" + os.path.basename(p)))
        n += 1
        kept += 1
print("kept", kept, "files; not kept because they do not pass on the current tree (or error):", dropped_fail)
