#!/bin/sh
# runs tools/seedtest.sh for every /verif/seeded/<id>/ (patch.diff, optional demo.py, meta.json) against the properties named in meta.json
# usage: tools/seedall.sh [tier] [pattern]
cd "$(dirname "$0")/.."
TIER=${1:-quick}; PAT=${2:-}
for d in seeded/*${PAT}*/; do
  id=$(basename $d)
  props=$(python3 -c "import json;m=json.load(open('$d/meta.json'));print(' '.join([m['property']]+m.get('also_expected',[])))")
  demo=-; [ -f ${d}demo.py ] && demo=$PWD/${d}demo.py
  tools/seedtest.sh $id $PWD/${d}patch.diff $demo $TIER $props
done
