#!/usr/bin/env python3
"""Systematic sensitivity screen: token-level mutants of openskill, filtered by the repository's own tests, then run against the checks.

usage: tools/mutscreen.py [--limit N] [--seed S] [--out FILE] [--only common|compute|shared]

Mutant families
  common  : every mutable token of openskill/models/weng_lin/common.py and openskill/models/common.py
  compute : every mutable token of the model-specific update code (_compute, _c, _sum_q, _a, _calculate_*) of each of the five files
  shared  : mutable tokens of the code the five files share (rate wrapper, predict_*, _check_teams, rating class, rating/create_rating),
            applied to ALL FIVE copies at once (a consistent edit, to which a differential between the copies is blind)
Pipeline per mutant: apply in a scratch worktree (outside /repo and /verif) -> byte-compile -> repository tests (must pass, else "killed by suite")
-> checks in an order chosen from the mutated function, quick tier at reduced scale, stop at the first check that reports a VIOLATION
-> if none does, all twenty checks at the full quick tier.  One JSON line per mutant is appended to the output file.
"""
import io
import json
import os
import random
import re
import subprocess
import sys
import time
import tokenize

HERE = os.path.dirname(os.path.dirname(os.path.abspath(__file__)))
WL = "openskill/models/weng_lin/"
MODEL_FILES = ["plackett_luce.py", "bradley_terry_full.py", "bradley_terry_part.py", "thurstone_mosteller_full.py", "thurstone_mosteller_part.py"]
CLASSNAMES = ["PlackettLuce", "BradleyTerryFull", "BradleyTerryPart", "ThurstoneMostellerFull", "ThurstoneMostellerPart"]
COMPUTE_FUNCS = {"_compute", "i_map", "od_reduce", "_c", "_sum_q", "_a", "_calculate_team_ratings", "_calculate_rankings", "_gamma"}
SKIP_FUNCS = {"__repr__", "__str__"}
ALL = [f"C{n:02d}" for n in range(1, 21)]

OPS = {"<": ["<="], "<=": ["<"], ">": [">="], ">=": [">"], "==": ["!="], "!=": ["=="], "+": ["-"], "-": ["+"], "*": ["/"], "/": ["*"], "**": ["*"],
       "+=": ["-="], "-=": ["+="], "*=": ["/="]}
NAMES = {"and": ["or"], "or": ["and"], "True": ["False"], "False": ["True"], "max": ["min"], "min": ["max"], "abs": ["float"], "sorted": ["list"]}
NUMS = {"0": ["1"], "1": ["0", "2"], "2": ["1", "3"], "0.0": ["1.0"], "1.0": ["0.0"], "0.5": ["0.25"], "3.0": ["2.0"], "1e-5": ["1e-3"]}

ORDER = {
    "v": ["C17", "C01", "C05"], "w": ["C17", "C06", "C01"], "vt": ["C17", "C07", "C05", "C01"], "wt": ["C17", "C06", "C01"],
    "phi_major": ["C17", "C12", "C09"], "phi_major_inverse": ["C12", "C10", "C11"], "phi_minor": ["C17", "C01"],
    "_unwind": ["C02", "C04", "C01"], "_sorter": ["C02", "C04", "C01"], "_pick_zeroth_index": ["C02", "C04"], "_ladder_pairs": ["C01", "C07", "C04"],
    "_unary_minus": ["C03"], "_arg_sort": ["C11"], "_rank_data": ["C11", "C19"], "_matrix_transpose": ["C02"],
    "_compute": ["C01", "C07", "C05", "C06", "C02", "C04"], "i_map": ["C01", "C07", "C05", "C06"], "od_reduce": ["C01", "C07", "C05", "C06"],
    "_c": ["C01", "C16"], "_sum_q": ["C01", "C07", "C06"], "_a": ["C01", "C07"], "_calculate_team_ratings": ["C01", "C12", "C04"],
    "_calculate_rankings": ["C01", "C03", "C07"], "_gamma": ["C01", "C06"],
    "rate": ["C01", "C02", "C03", "C06", "C15", "C13", "C14"], "predict_win": ["C12", "C09", "C13"], "predict_draw": ["C12", "C10", "C11", "C13"],
    "predict_rank": ["C12", "C11", "C13"], "_check_teams": ["C13", "C19"], "rating": ["C20"], "create_rating": ["C20", "C13"],
    "__init__": ["C20", "C14", "C01", "C15"], "__deepcopy__": ["C20", "C06", "C02"], "__eq__": ["C18", "C20"], "__lt__": ["C18"], "__gt__": ["C18"],
    "__le__": ["C18"], "__ge__": ["C18"], "__hash__": ["C19", "C18"], "ordinal": ["C18"],
}


def sh(cmd, **kw):
    return subprocess.run(cmd, shell=True, capture_output=True, text=True, **kw)


def mutable_tokens(path):
    """-> list of (line, col, end_col, old, [new...], func) for code tokens (no docstrings, comments, annotations of signatures kept simple)."""
    src = open(path).read()
    toks = list(tokenize.generate_tokens(io.StringIO(src).readline))
    out = []
    func_stack = []  # (indent, name)
    indent = 0
    prev = None
    pending_def = None
    in_sig = 0
    for i, t in enumerate(toks):
        if t.type == tokenize.INDENT:
            indent += 1
        elif t.type == tokenize.DEDENT:
            indent -= 1
            while func_stack and func_stack[-1][0] >= indent:
                func_stack.pop()
        if t.type == tokenize.NAME and t.string in ("def", "class") and toks[i + 1].type == tokenize.NAME:
            pending_def = toks[i + 1].string
            in_sig = 1
        if in_sig and t.type == tokenize.OP and t.string == ":" and _depth(toks, i) == 0:
            func_stack.append((indent, pending_def))
            in_sig = 0
            prev = t
            continue
        func = next((n for _, n in reversed(func_stack) if n), None)
        if in_sig or func is None or func in SKIP_FUNCS:
            prev = t
            continue
        # skip annotations "name: type = value" crude: tokens between ':' and '=' on an annotated assignment are rare in bodies; ignore
        cand = None
        if t.type == tokenize.OP and t.string in OPS:
            # unary minus / plus are fine to mutate too, but '*' in call unpacking and '-' in '->' are not code
            if t.string in ("*", "**") and prev is not None and prev.string in ("(", ",", "["):
                cand = None
            else:
                cand = OPS[t.string]
        elif t.type == tokenize.NAME and t.string in NAMES:
            cand = NAMES[t.string]
        elif t.type == tokenize.NUMBER and t.string in NUMS:
            cand = NUMS[t.string]
        elif t.type == tokenize.NAME and t.string == "not" and toks[i - 1].string != "is":
            cand = [""]
        elif t.type == tokenize.NAME and t.string == "is" and toks[i + 1].string == "not":
            cand = None
        if cand:
            out.append((t.start[0], t.start[1], t.end[1], t.string, cand, func))
        prev = t
    return src.splitlines(keepends=True), out


def _depth(toks, i):
    d = 0
    j = i - 1
    while j >= 0 and toks[j].type != tokenize.NEWLINE and not (toks[j].type == tokenize.NAME and toks[j].string in ("def", "class")):
        if toks[j].string in ")]}":
            d += 1
        elif toks[j].string in "([{":
            d -= 1
        j -= 1
    return d


def norm(line, k):
    return line.replace(CLASSNAMES[k], "<M>")


def gen_mutants(root, only=None):
    muts = []
    if only in (None, "common"):
        for rel in (WL + "common.py", "openskill/models/common.py"):
            lines, toks = mutable_tokens(os.path.join(root, rel))
            for (ln, c0, c1, old, news, func) in toks:
                for new in news:
                    muts.append({"family": "common", "func": func, "edits": [(rel, ln, c0, c1, old, new)]})
    per_file = {}
    for k, f in enumerate(MODEL_FILES):
        per_file[k] = mutable_tokens(os.path.join(root, WL + f))
    if only in (None, "compute"):
        for k, f in enumerate(MODEL_FILES):
            lines, toks = per_file[k]
            for (ln, c0, c1, old, news, func) in toks:
                if func in COMPUTE_FUNCS:
                    for new in news:
                        muts.append({"family": "compute", "func": func, "model": CLASSNAMES[k], "edits": [(WL + f, ln, c0, c1, old, new)]})
    if only in (None, "shared"):
        lines0, toks0 = per_file[0]
        for (ln, c0, c1, old, news, func) in toks0:
            if func in COMPUTE_FUNCS:
                continue
            key = norm(lines0[ln - 1], 0)
            # occurrence index of this line text within its function in file 0
            occ = sum(1 for (l2, _, _, _, _, f2) in toks0 if f2 == func and l2 < ln and norm(lines0[l2 - 1], 0) == key and l2 != ln)
            edits_all = None
            ok = True
            edits = [(WL + MODEL_FILES[0], ln, c0, c1, old, None)]
            for k in range(1, 5):
                lk, tk = per_file[k]
                matches = sorted(set(l2 for (l2, cc0, _, o2, _, f2) in tk if f2 == func and norm(lk[l2 - 1], k) == key))
                # the same token (by text and by index among equal tokens on the line)
                line_toks0 = [x for x in toks0 if x[0] == ln and x[3] == old]
                idx = [x[1] for x in line_toks0].index(c0)
                cand_lines = matches
                if not cand_lines:
                    ok = False
                    break
                # pick the occ-th distinct matching line
                l2 = cand_lines[min(occ_index(toks0, lines0, func, ln, key), len(cand_lines) - 1)]
                line_toksk = [x for x in tk if x[0] == l2 and x[3] == old]
                if idx >= len(line_toksk):
                    ok = False
                    break
                x = line_toksk[idx]
                edits.append((WL + MODEL_FILES[k], x[0], x[1], x[2], old, None))
            if not ok:
                continue
            for new in news:
                muts.append({"family": "shared", "func": func, "edits": [(f, l, a, b, o, new) for (f, l, a, b, o, _) in edits]})
    if only in (None, "stmt"):
        # statement deletion (replaced by `pass`) in the shared wrapper code, applied to all five copies at once
        import ast
        src0 = open(os.path.join(root, WL + MODEL_FILES[0])).read()
        tree = ast.parse(src0)
        targets = []
        for node in ast.walk(tree):
            if isinstance(node, ast.FunctionDef) and node.name in ("rate", "predict_win", "predict_draw", "predict_rank", "rating", "create_rating", "__deepcopy__"):
                for sub in ast.walk(node):
                    if isinstance(sub, (ast.Assign, ast.AugAssign, ast.Expr)) and sub.lineno == sub.end_lineno and not (
                            isinstance(sub, ast.Expr) and isinstance(sub.value, ast.Constant)):
                        targets.append((node.name, sub.lineno))
        lines0 = src0.splitlines(keepends=True)
        for func, ln in sorted(set(targets)):
            text0 = norm(lines0[ln - 1], 0)
            same0 = [i + 1 for i, l in enumerate(lines0) if norm(l, 0) == text0]
            occ = same0.index(ln)
            edits = []
            ok = True
            for k, f in enumerate(MODEL_FILES):
                lk = open(os.path.join(root, WL + f)).read().splitlines(keepends=True)
                same = [i + 1 for i, l in enumerate(lk) if norm(l, k) == text0]
                if len(same) != len(same0):
                    ok = False
                    break
                l2 = same[occ]
                body = lk[l2 - 1]
                ind = len(body) - len(body.lstrip())
                edits.append((WL + f, l2, ind, len(body.rstrip("\n")), body[ind:].rstrip("\n"), "pass"))
            if ok:
                muts.append({"family": "stmt", "func": func, "edits": edits})
    return muts


def occ_index(toks0, lines0, func, ln, key):
    seen = []
    for (l2, _, _, _, _, f2) in toks0:
        if f2 == func and norm(lines0[l2 - 1], 0) == key and l2 not in seen:
            seen.append(l2)
    return seen.index(ln)


def apply(wt, edits):
    by_file = {}
    for (f, ln, c0, c1, old, new) in edits:
        by_file.setdefault(f, []).append((ln, c0, c1, old, new))
    for f, es in by_file.items():
        p = os.path.join(wt, f)
        lines = open(p).read().splitlines(keepends=True)
        for (ln, c0, c1, old, new) in sorted(es, key=lambda e: (e[0], -e[1])):
            line = lines[ln - 1]
            assert line[c0:c1] == old, (f, ln, line[c0:c1], old)
            lines[ln - 1] = line[:c0] + new + line[c1:]
        open(p, "w").write("".join(lines))


def run_check(p, wt, scale):
    r = subprocess.run([os.path.join(HERE, "check"), p, "--tier", "quick", "--no-evidence", "--scale", str(scale)], capture_output=True, text=True,
                       env=dict(os.environ, VERIF_TREE=wt, VERIF_SHRINK_S="3"), cwd=HERE)
    viol = [ln for ln in r.stdout.splitlines() if ln.startswith("VIOLATION")]
    first = next((ln.strip() for ln in r.stdout.splitlines() if ln.strip().startswith("violation clause")), "")
    return r.returncode, len(viol), first[:240]


def main():
    args = sys.argv[1:]
    limit, seed, out, only = None, 1, "/root/scratch/mutscreen.jsonl", None
    while args:
        a = args.pop(0)
        if a == "--limit":
            limit = int(args.pop(0))
        elif a == "--seed":
            seed = int(args.pop(0))
        elif a == "--out":
            out = args.pop(0)
        elif a == "--only":
            only = args.pop(0)
    wt = "/root/scratch/m/_mutscreen"
    os.makedirs("/root/scratch/m", exist_ok=True)
    sh(f"git -C /repo worktree remove --force {wt}")
    assert sh(f"git -C /repo worktree add -q --detach {wt} HEAD").returncode == 0
    try:
        muts = gen_mutants(wt, only)
        random.Random(seed).shuffle(muts)
        done = set()
        if os.path.exists(out):
            for line in open(out):
                try:
                    done.add(json.dumps(json.loads(line)["edits"]))
                except Exception:  # noqa: BLE001
                    pass
        print(len(muts), "mutants generated;", len(done), "already screened", flush=True)
        n = 0
        for m in muts:
            key = json.dumps([list(e) for e in m["edits"]])
            if key in done:
                continue
            if limit is not None and n >= limit:
                break
            n += 1
            sh(f"git -C {wt} checkout -q -- .")
            rec = dict(m)
            rec["edits"] = [list(e) for e in m["edits"]]
            t0 = time.time()
            try:
                apply(wt, m["edits"])
            except AssertionError as e:
                rec["status"] = "apply-error"
                rec["detail"] = repr(e)[:200]
                open(out, "a").write(json.dumps(rec) + "\n")
                continue
            env = dict(os.environ, PYTHONPATH=wt, PYTHONDONTWRITEBYTECODE="1")
            c = subprocess.run(["/venv/bin/python", "-c", "import openskill.models, openskill.models.weng_lin.common"], env=env, capture_output=True, text=True)
            if c.returncode != 0:
                rec["status"] = "does-not-import"
                open(out, "a").write(json.dumps(rec) + "\n")
                continue
            t = sh("/venv/bin/python -m pytest -q -x -p no:cacheprovider 2>&1 | tail -1", cwd=wt, env=env).stdout.strip()
            rec["tests"] = t
            if "passed" not in t or "failed" in t or "error" in t:
                rec["status"] = "killed-by-suite"
                open(out, "a").write(json.dumps(rec) + "\n")
                print(f"[{n}] suite  {m['family']}:{m['func']} {m['edits'][0][4]!r}->{m['edits'][0][5]!r} line {m['edits'][0][1]}", flush=True)
                continue
            order = ORDER.get(m["func"], []) + [p for p in ALL if p not in ORDER.get(m["func"], [])]
            rec["tried"] = []
            caught = None
            for p in order[: len(ORDER.get(m["func"], [])) or 3]:
                rc, nb, first = run_check(p, wt, 0.25)
                rec["tried"].append([p, rc, "scale0.25"])
                if rc == 1:
                    caught = (p, first)
                    break
            if caught is None:
                for p in order:
                    rc, nb, first = run_check(p, wt, 1.0)
                    rec["tried"].append([p, rc, "quick"])
                    if rc == 1:
                        caught = (p, first)
                        break
            rec["seconds"] = round(time.time() - t0)
            if caught:
                rec["status"] = "caught"
                rec["by"] = caught[0]
                rec["first"] = caught[1]
            else:
                rec["status"] = "SURVIVED"
                rec["diff"] = sh(f"git -C {wt} diff -U1").stdout[:3000]
            open(out, "a").write(json.dumps(rec) + "\n")
            print(f"[{n}] {rec['status']:8s} {m['family']}:{m['func']} {m['edits'][0][4]!r}->{m['edits'][0][5]!r} line {m['edits'][0][1]} "
                  f"{'by ' + rec.get('by', '') if caught else ''} {rec['seconds']}s", flush=True)
    finally:
        sh(f"git -C /repo worktree remove --force {wt}")


if __name__ == "__main__":
    main()
