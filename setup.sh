#!/bin/sh
# Offline setup: third-party packages the checks need, from the local wheelhouse only.
# hypothesis is used from /venv when present; everything else goes to /verif/.deps (never /venv).
set -e
cd "$(dirname "$0")"
PY=/venv/bin/python
WH=/opt/veriftools/wheels
mkdir -p .deps
need=""
PYTHONPATH=.deps $PY -c "import hypothesis" 2>/dev/null || need="$need hypothesis"
PYTHONPATH=.deps $PY -c "import mpmath" 2>/dev/null || need="$need mpmath"
PYTHONPATH=.deps $PY -c "import jsonschema" 2>/dev/null || need="$need jsonschema"
PYTHONPATH=.deps $PY -c "import atheris" 2>/dev/null || need="$need atheris"
if [ -n "$need" ]; then
  PIP_NO_INDEX=1 PIP_DISABLE_PIP_VERSION_CHECK=1 $PY -m pip install -q --no-index --find-links "$WH" --target .deps $need
fi
PYTHONPATH=.deps $PY -c "import hypothesis, mpmath, jsonschema" 
touch .deps/.ok
echo "setup ok"
